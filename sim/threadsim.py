"""ThreadSim: real threads, one runs at a time, the simulator decides which.

* modules under test are loaded with every code object instrumented for
  sys.monitoring INSTRUCTION events -> every bytecode instruction of the
  repository code is a potential pre-emption point, from its first execution;
* simulated threads are real threading.Thread objects parked on private
  locks; the scheduler (main thread) releases exactly one at a time;
* locks seen by the code under test are simulator objects;
* every decision comes either from the run PRNG (recorded) or from a recorded
  schedule (replay): a list of [thread, that thread's own step count, next].
"""

import _thread
import importlib.util
import sys
import threading as _real_threading

from .core import Violation

TOOL_ID = 4
_E = sys.monitoring.events

RUNNABLE, BLOCKED, DONE = "R", "B", "D"

# functions whose pre-emption points are counted one by one (reach measure: which bytecode
# boundaries of the critical code were actually used for a thread switch)
COVER_FUNCS = frozenset(("_generate_request_id", "get_conn", "do_request"))

_SIM = None            # the ThreadSim that is running now (or None)
_INSTRUMENTED = {}     # module name -> number of code objects
_tool_ready = False


class SimAbort(BaseException):
    """Unwinds a simulated thread (step budget, harness shutdown)."""


def _walk_code(co):
    yield co
    for c in co.co_consts:
        if hasattr(c, "co_code"):
            yield from _walk_code(c)


def _on_instruction(code, offset):
    sim = _SIM
    if sim is None:
        return None
    t = sim.by_ident.get(_thread.get_ident())
    if t is None:
        return None
    sim._on_step(t, code, offset)
    return None


def _ensure_tool():
    global _tool_ready
    if _tool_ready:
        return
    sys.monitoring.use_tool_id(TOOL_ID, "ak_py_threadsim")
    sys.monitoring.register_callback(TOOL_ID, _E.INSTRUCTION, _on_instruction)
    _tool_ready = True


def load_instrumented(modname):
    """Import `modname` with INSTRUCTION events enabled on all its code objects.

    Must be called before anything else imports the module."""
    _ensure_tool()
    if modname in _INSTRUMENTED:
        return sys.modules[modname]
    if modname in sys.modules:
        raise RuntimeError(f"{modname} was imported before instrumentation")
    parent = modname.rpartition(".")[0]
    if parent:
        importlib.import_module(parent)
    spec = importlib.util.find_spec(modname)
    code = spec.loader.get_code(modname)
    n = 0
    for co in _walk_code(code):
        sys.monitoring.set_local_events(TOOL_ID, co, _E.INSTRUCTION)
        n += 1
    mod = importlib.util.module_from_spec(spec)
    sys.modules[modname] = mod
    try:
        exec(code, mod.__dict__)
    except BaseException:
        sys.modules.pop(modname, None)
        raise
    # second line of defence: a module that binds the lock factories by name at import time
    # (`from threading import Lock`) or keeps a module-level lock must still use simulator locks
    lock_type = type(_thread.allocate_lock())
    rlock_type = type(_real_threading.RLock())
    for name, val in list(mod.__dict__.items()):
        if val is _real_threading.Lock or val is _thread.allocate_lock:
            mod.__dict__[name] = lambda: SimLock(False)
        elif val is _real_threading.RLock:
            mod.__dict__[name] = lambda: SimLock(True)
        elif isinstance(val, lock_type):
            mod.__dict__[name] = SimLock(False)
        elif isinstance(val, rlock_type):
            mod.__dict__[name] = SimLock(True)
    if parent:
        setattr(sys.modules[parent], modname.rpartition(".")[2], mod)
    _INSTRUMENTED[modname] = n
    return mod


def instrumented_counts():
    return dict(_INSTRUMENTED)


def cover_totals():
    """{function name: number of bytecode instructions (= pre-emption points) it has}"""
    import dis
    out = {}
    for modname in _INSTRUMENTED:
        spec = importlib.util.find_spec(modname)
        code = spec.loader.get_code(modname)
        for co in _walk_code(code):
            if co.co_name in COVER_FUNCS:
                out[co.co_name] = out.get(co.co_name, 0) + sum(1 for _ in dis.get_instructions(co))
    return out


class SimThread:
    __slots__ = ("idx", "fn", "go", "state", "steps", "held", "waiting_on",
                 "exc", "thread", "cur_op", "in_flight")

    def __init__(self, idx, fn):
        self.idx = idx
        self.fn = fn
        self.go = _thread.allocate_lock()
        self.go.acquire()
        self.state = RUNNABLE
        self.steps = 0
        self.held = 0
        self.waiting_on = None
        self.exc = None
        self.thread = None
        self.cur_op = None
        self.in_flight = False


class SimLock:
    """Lock/RLock replacement handed to the code under test."""

    def __init__(self, reentrant=False):
        self.owner = None
        self.count = 0
        self.reentrant = reentrant
        self.waiters = []

    def acquire(self, blocking=True, timeout=-1):
        sim = _SIM
        t = sim.by_ident.get(_thread.get_ident()) if sim is not None else None
        if t is None:
            # outside the simulation (world set-up in the scheduler thread)
            if self.owner is not None and not (self.reentrant and self.owner == "main"):
                raise RuntimeError("harness: simulator lock contended outside simulation")
            self.owner = "main"
            self.count += 1
            return True
        if self.reentrant and self.owner is t:
            self.count += 1
            return True
        while self.owner is not None:
            if not blocking:
                return False
            if timeout is not None and timeout >= 0 and sim.timed_wait_expires(t):
                # fault: the holder is slow (or the clock jumps) and a wait with a timeout gives up
                sim.stats["timed_wait_expired"] = sim.stats.get("timed_wait_expired", 0) + 1
                t.steps += 1
                return False
            sim.stats["lock_contention"] += 1
            sim._block(t, self)
        self.owner = t
        self.count = 1
        t.held += 1
        sim.stats["lock_acquire"] += 1
        return True

    def release(self):
        if self.owner is None:
            raise RuntimeError("release unlocked lock")
        self.count -= 1
        if self.count > 0:
            return
        if self.owner != "main":
            self.owner.held -= 1
        self.owner = None
        for w in self.waiters:
            if w.state == BLOCKED and w.waiting_on is self:
                w.state = RUNNABLE
                w.waiting_on = None
        self.waiters.clear()

    def locked(self):
        return self.owner is not None

    def __enter__(self):
        self.acquire()
        return self

    def __exit__(self, *a):
        self.release()
        return False


class ThreadingShim:
    """Stands in for the `threading` module inside the modules under test."""

    def __init__(self):
        self.created = 0

    def Lock(self):
        self.created += 1
        return SimLock(False)

    def RLock(self):
        self.created += 1
        return SimLock(True)

    def __getattr__(self, name):
        if name in ("Semaphore", "BoundedSemaphore", "Condition", "Event", "Barrier", "Thread", "Timer"):
            raise RuntimeError(f"harness: threading.{name} is not simulated")
        return getattr(_real_threading, name)


# --------------------------------------------------------------------------
# policies (PRNG mode)

class Policy:
    """Decides pre-emptions in PRNG mode."""

    def __init__(self, spec, rng):
        self.spec = spec
        self.rng = rng
        self.kind = spec["kind"]
        self.p = spec.get("p", 0.05)
        self.q = spec.get("q", 10)
        self.targets = frozenset(spec.get("targets", ()))
        self.p_in = spec.get("p_in", 0.5)
        self.p_out = spec.get("p_out", 0.005)
        self.change_points = set(spec.get("change_points", ()))
        self.prio = {}
        self.since = 0
        self.park_len = spec.get("len", 1000)
        self.parked = {}

    def want_switch(self, sim, t, code):
        k = self.kind
        if k == "uniform":
            return self.rng.random() < self.p
        if k == "quantum":
            self.since += 1
            if self.since >= self.q:
                self.since = 0
                return True
            return False
        if k == "targeted":
            p = self.p_in if code.co_name in self.targets else self.p_out
            return self.rng.random() < p
        if k == "park":
            # targeted, and the pre-empted thread stays off the processor for a while (a descheduled / slow thread):
            # the others get through whole operations while it sits in the middle of one
            p = self.p_in if code.co_name in self.targets else self.p_out
            if self.rng.random() < p:
                self.parked[t.idx] = sim.total_steps + self.park_len
                return True
            return False
        if k == "pct":
            if sim.total_steps in self.change_points:
                # lower the running thread below everybody else
                self.prio[t.idx] = min(self.prio.values(), default=0) - 1
                return True
            return False
        if k == "none":
            return False
        raise RuntimeError(f"unknown policy {k}")

    def choose(self, sim, cur, candidates, forced):
        """candidates: list of runnable SimThreads (cur excluded unless it is the only choice)."""
        if self.kind == "pct":
            for c in candidates:
                if c.idx not in self.prio:
                    self.prio[c.idx] = self.rng.random()
            return max(candidates, key=lambda c: self.prio[c.idx])
        if self.kind == "park":
            awake = [c for c in candidates if self.parked.get(c.idx, 0) <= sim.total_steps]
            candidates = awake or candidates
        return candidates[self.rng.randrange(len(candidates))] if len(candidates) > 1 else candidates[0]


# --------------------------------------------------------------------------

class ThreadSim:
    STEP_BUDGET = 200_000

    def __init__(self, policy_spec=None, rng=None, schedule=None, log=None):
        """PRNG mode: rng given, schedule None.  Replay mode: schedule = list of
        [thread idx, own step count, next idx]; rng unused."""
        self.replay = schedule is not None
        self.plan = {}
        if self.replay:
            for rec in schedule:
                self.plan[(rec[0], rec[1])] = rec[2]
        self.policy = None if self.replay else Policy(policy_spec or {"kind": "none"}, rng)
        self.timed_waits = dict((policy_spec or {}).get("tw") or {})
        # the caller threads of an application need not be threading.Thread objects (a legacy module using
        # _thread.start_new_thread, callback threads of a C library): threading.active_count() does not see those
        self.raw_threads = bool((policy_spec or {}).get("raw"))
        self.threads = []
        self.by_ident = {}
        self.back = _thread.allocate_lock()
        self.back.acquire()
        self.current = None
        self.next_hint = None
        self.total_steps = 0
        self.recorded = []
        self.log = log
        self.failure = None
        self.stats = {
            "preempt": 0, "preempt_lock_held": 0, "preempt_in_target": 0,
            "lock_contention": 0, "lock_acquire": 0, "net_yield": 0,
            "forced_switch": 0, "steps": 0,
        }
        self.target_names = frozenset(("_generate_request_id",))

    # -- set-up
    def spawn(self, fn):
        t = SimThread(len(self.threads), fn)
        self.threads.append(t)
        return t

    def cur_thread(self):
        return self.by_ident.get(_thread.get_ident())

    # -- called in simulated threads
    def _thread_main(self, t):
        t.go.acquire()
        try:
            if self.failure is None:
                t.fn(t)
        except SimAbort:
            pass
        except BaseException as e:  # harness bug: thread bodies catch SUT exceptions themselves
            t.exc = e
        t.state = DONE
        t.steps += 1
        self.back.release()

    def _on_step(self, t, code, offset=-1):
        t.steps += 1
        self.total_steps += 1
        if t.steps > self.STEP_BUDGET:
            self.failure = Violation("liveness", "step-budget",
                                     f"thread {t.idx} exceeded {self.STEP_BUDGET} instructions in one run")
            raise SimAbort()
        if self.replay:
            nxt = self.plan.get((t.idx, t.steps))
            if nxt is None or nxt == t.idx:
                return
            cand = self.threads[nxt] if 0 <= nxt < len(self.threads) else None
            if cand is None or cand.state != RUNNABLE:
                return
        else:
            if not self.policy.want_switch(self, t, code):
                return
            others = [x for x in self.threads if x.state == RUNNABLE and x is not t]
            if not others:
                return
            cand = self.policy.choose(self, t, others, False)
            self.recorded.append([t.idx, t.steps, cand.idx])
        st = self.stats
        st["preempt"] += 1
        if t.held:
            st["preempt_lock_held"] += 1
        if code.co_name in self.target_names:
            st["preempt_in_target"] += 1
        if code.co_name in COVER_FUNCS:
            st[f"pp.{code.co_name}.{offset}"] = 1
        self.next_hint = cand
        self._yield(t)

    def _yield(self, t):
        self.back.release()
        t.go.acquire()
        if self.failure is not None:
            raise SimAbort()

    def timed_wait_expires(self, t):
        """does a contended wait WITH a timeout give up now?  Decided by the run's configuration and the
        waiter's own position only (thread, own step count), so that a replayed schedule repeats it."""
        tw = self.timed_waits
        pct = tw.get("pct", 40)
        if pct <= 0:
            return False
        import zlib
        return zlib.crc32(f"{tw.get('salt', 0)}:{t.idx}:{t.steps}".encode()) % 100 < pct

    def _block(self, t, lock):
        """t cannot proceed until `lock` is released."""
        t.steps += 1
        t.state = BLOCKED
        t.waiting_on = lock
        lock.waiters.append(t)
        self.next_hint = None
        self._yield(t)

    def net_yield(self, t):
        """A forced scheduling point (message in flight): anybody may run next."""
        t.steps += 1
        self.stats["net_yield"] += 1
        self.next_hint = None
        self._yield(t)

    # -- scheduler (main thread)
    def _pick_forced(self, cur):
        runnable = [x for x in self.threads if x.state == RUNNABLE]
        if not runnable:
            return None
        key = (cur.idx, cur.steps) if cur is not None else (-1, 0)
        if self.replay:
            nxt = self.plan.get(key)
            if nxt is not None and 0 <= nxt < len(self.threads) and self.threads[nxt].state == RUNNABLE:
                return self.threads[nxt]
            if cur is not None and cur.state == RUNNABLE:
                return cur
            return runnable[0]
        cand = self.policy.choose(self, cur, runnable, True)
        self.recorded.append([key[0], key[1], cand.idx])
        return cand

    def run(self, watchdog_s=20.0):
        global _SIM
        if _SIM is not None:
            raise RuntimeError("nested ThreadSim")
        for t in self.threads:
            if self.raw_threads:
                # (parked on its private lock at once: it is safe to register the ident afterwards)
                self.by_ident[_thread.start_new_thread(self._thread_main, (t,))] = t
                continue
            th = _real_threading.Thread(target=self._thread_main, args=(t,),
                                        name=f"sim-{t.idx}", daemon=True)
            t.thread = th
            th.start()
            self.by_ident[th.ident] = t
        _SIM = self
        try:
            cur = None
            while True:
                nxt = self.next_hint
                self.next_hint = None
                if nxt is None or nxt.state != RUNNABLE:
                    if cur is not None:
                        self.stats["forced_switch"] += 1
                    nxt = self._pick_forced(cur)
                if nxt is None:
                    if all(t.state == DONE for t in self.threads):
                        break
                    blocked = [t.idx for t in self.threads if t.state == BLOCKED]
                    if self.failure is None:
                        self.failure = Violation(
                            "liveness", "deadlock",
                            f"no runnable thread; blocked={blocked}")
                    break
                cur = nxt
                self.current = cur
                cur.go.release()
                if not self.back.acquire(timeout=watchdog_s):
                    raise RuntimeError("harness: simulated thread did not come back (blocked on a real primitive?)")
                if self.failure is not None and all(
                        t.state in (DONE, BLOCKED) for t in self.threads):
                    break
                if self.failure is not None:
                    # let the remaining runnable threads unwind
                    continue
        finally:
            _SIM = None
            self.stats["steps"] = self.total_steps
        for t in self.threads:
            if t.exc is not None:
                raise RuntimeError(f"harness: exception escaped simulated thread {t.idx}: {t.exc!r}") from t.exc
        if self.failure is not None:
            raise self.failure
