"""C14 - syntax colours resolve by inheritance, independent of registration order.

Parties (explicit configuration, built-ins, real components, synthetic
components, the user) deliver one acyclic description set to a shared
configuration under a seeded delivery schedule; after every delivery every
formatter is decoded from its escape sequence and compared with the
independent resolver in sim/models/color_model.py."""

import hashlib
import json

from .. import renderworld as rw
from .. import colorgen
from ..core import EventLog, Violation, OK, violation_result
from ..models import sgr
from ..models.color_model import Registry, flatten, parse_descr, Invalid, PLAIN

ID = "C14"
ENGINE = "renderworld"
SHRINK_LISTS = ("ops",)
WATCH_FILES = ("ak/color.py", "ak/ppobj.py", "ak/hdoc.py", "ak/ghist.py")
REQUIRED_PROBES = ("deliveries", "late_resolutions", "explicit_wins", "checks", "global_checks", "synced_checks", "held_checks")

REAL_VS_STUB = {'real': ['ak.color (parser, incremental resolution, palettes, global/synced palettes), component palettes of ak.ppobj / ak.hdoc / ak.ghist'], 'stub': ['nothing of the package; synthetic component classes are created with type(); process-global state -> fresh forked process per run; reference report in a pristine forked process']}

ASSUMPTIONS = ['the independent resolver in sim/models/color_model.py implements the documented grammar and the inheritance rule of the statement', 'description sets are acyclic and no two parties describe one id differently, except explicit configuration vs component (explicit must win)', 'after a poisoned batch its ids and every id whose chain touches them are quarantined for the rest of the run']

RULE = ("each run = one acyclic description set (explicit nested config overriding built-in/component/user ids, 1-4 "
        "synthetic components with PARENT_PALETTES, real components, user ids; every section form, '-', '', names, "
        "ints, rgb, greys, modifiers and no_ modifiers) delivered under one seeded schedule (component first uses in "
        "any order, user batches split arbitrarily, child before parent, parents never delivered, poisoned batches, "
        "interleaved with reads, making the configuration global / replacing the global one, synced palettes). "
        "Non-trivial iff some id was resolved only by a later delivery (child before parent) or an explicit item "
        "overrode a component default; distinct = digest of the whole trace.")

REAL = {
    # name -> (import path, accessors {accessor: syntax id})   (public declarations of the package)
    "PPPalette": ("ak.ppobj:PrettyPrinter.PPPalette", {"text": "TEXT", "name": "NAME", "number": "NUMBER", "keyword": "KEYWORD"}),
    "RecordPalette": ("ak.ppobj:FieldType.RecordPalette", {"text": "TEXT", "number": "RECORD.NUMBER", "keyword": "RECORD.KEYWORD"}),
    "TitlePalette": ("ak.ppobj:_DefaultTitleFieldType.TitlePalette",
                     {"text": "TEXT", "number": "RECORD.NUMBER", "keyword": "RECORD.KEYWORD",
                      "title": "RECORD.TITLE", "col_title": "RECORD.COL_TITLE"}),
    "TablePalette": ("ak.ppobj:PPTable.TablePalette", {"text": "TEXT", "border": "TABLE.BORDER", "warn": "TABLE.WARN", "header": "TABLE.HEADER"}),
    "EnumPalette": ("ak.ppobj:PPEnumFieldType.EnumPalette",
                    {"text": "TEXT", "number": "RECORD.NUMBER", "keyword": "RECORD.KEYWORD", "error": "ERROR",
                     "value": "", "name_good": "", "name_warn": ""}),
    "GHistPalette": ("ak.ghist:GHistReport.GHistPalette",
                     {"text": "TEXT", "repo": "GHIST.REPO", "branch": "GHIST.BRANCH", "hash": "GHIST.HASH",
                      "hash_not_merged": "GHIST.HASH_NOT_MERGED", "commit_time": "GHIST.COMMIT_TIME",
                      "commit_name": "GHIST.COMMIT_NAME", "version": "GHIST.VERSION",
                      "ver_not_built": "GHIST.VER_NOT_BUILT", "ver_not_merged": "GHIST.VER_NOT_MERGED"}),
    "HCmdPalette": ("ak.hdoc:HCommand.HCmdPalette",
                    {"text": "TEXT", "attr": "HDOC.ATTR", "func_name": "HDOC.FUNC_NAME", "tag": "HDOC.TAG", "warn": "HDOC.WARN"}),
    "LLImplPalette": ("ak.hdoc:LLImpl.LLImplPalette", {"text": "TEXT", "name": "LL.NAME", "category": "LL.CATEGORY"}),
}
COMPOUND = ("TablePalette",)
ODD_IDS = ["red", "Cyan", "Blue.x", "G5", "g24", "g05", "white", "Magenta", "usr.a", "TEXT.sub",
           # ids spelled like accessors / attributes of the palettes (an id is an id)
           "warn", "error", "ok", "keyword", "name", "text", "get_color", "colors_conf",
           # ids that begin like a colour number / an rgb triple
           "2XX", "3D.AXIS", "1ST", "0x1F"]
GLOBAL_ACCESSORS = {"text": "TEXT", "name": "NAME", "keyword": "KEYWORD", "ok": "OK", "warn": "WARN", "error": "ERROR"}


def init_zygote():
    rw.init_zygote()


def _real_class(name):
    import importlib
    path = REAL[name][0]
    mod, qual = path.split(":")
    o = importlib.import_module(mod)
    for part in qual.split("."):
        o = getattr(o, part)
    return o


# --------------------------------------------------------------------------
# generation

def generate(rng, tier):
    no_color = rng.random() < 0.1
    big = tier != "quick"
    n_syn = rng.randint(1, 6 if big else 4)
    usr = [f"USR.{c}" for c in "ABCDEFGHIJ"][: rng.randint(2, 10 if big else 6)]
    if rng.random() < 0.04:
        # a configuration with a long life: hundreds of descriptions arrive over time
        usr = [f"USR.N{i}" for i in range(rng.choice([40, 70, 130, 260]))]
    deep = rng.random() < 0.05
    if deep:
        # one long reference chain (12-40 links) whose names sort in an order of their own: whichever link a
        # registration looks at first, the whole chain has to resolve, in one batch or over several
        names = [f"CH.L{i:02}" for i in range(rng.choice([12, 17, 25, 40]))]
        usr = usr[:2] + names
    real_used = rng.sample(sorted(REAL), rng.randint(1, 7 if big else 4))
    comps = []
    syn_ids = []
    for i in range(n_syn):
        ids = [f"S{i}.X"]
        if rng.random() < 0.7:
            ids.append(f"S{i}.Y")
        if rng.random() < 0.4:
            ids.append(f"S{i}.G.Z")
        if rng.random() < 0.2:
            ids.append(f"S{i}.G.W")
        parents = [f"Syn{j}" for j in range(i) if rng.random() < 0.35]
        c = {"name": f"Syn{i}", "ids": ids, "parents": parents}
        if parents and rng.random() < 0.3:
            # a user's palette that only re-uses the syntaxes of its parent palettes: no defaults of its own
            c["ids"] = ids = []
            c["no_defaults"] = True
        if rng.random() < 0.15:
            # the table of defaults is completed by other modules after the class statement and before the first use
            # (an extension adds its items in place; or the whole table is assigned at start-up)
            c["late_defaults"] = rng.choice(["in_place", "assigned"])
        if i and rng.random() < 0.12:
            # a user's palette class derived (plain Python inheritance) from another palette class: no table and
            # no parents of its own, the base's ones apply; some accessors re-bound
            c["pybase"] = comps[rng.randrange(i)]["name"]
            c["ids"] = ids = []
            c["parents"] = []
            c["no_defaults"] = True
        if i and rng.random() < 0.12:
            # two different component classes that print alike (same module, same name: made by a factory)
            c["cls_name"] = comps[rng.randrange(i)]["name"]
        comps.append(c)
        syn_ids += ids
    real_ids = sorted({sid for name in real_used for sid in REAL[name][1].values()
                       if sid and sid not in colorgen.BUILTIN_IDS})
    if rng.random() < 0.25:
        # syntax ids are arbitrary strings: ids that merely LOOK like colours (wrong case, out of range)
        usr = usr + rng.sample(ODD_IDS, rng.randint(1, 3))
    # global order: an id may refer only to ids placed before it (acyclic by construction);
    # built-ins first because the real component defaults refer to them
    later = syn_ids + usr + real_ids
    rng.shuffle(later)
    order = list(colorgen.BUILTIN_IDS) + later
    pos = {sid: i for i, sid in enumerate(order)}
    dash_ok = True
    chain_prev = {}
    if deep:
        links = sorted((x for x in order if x.startswith("CH.L")), key=pos.get)
        chain_prev = dict(zip(links[1:], links))

    def descr_for(sid):
        if sid in chain_prev:
            d = colorgen.gen_descr(rng, [chain_prev[sid]], dash_ok)
            return d if d.split(":")[0] == chain_prev[sid] else chain_prev[sid]
        before = order[: pos[sid]]
        parents = list(before)
        if rng.random() < 0.25:
            parents.append(f"ABSENT.{rng.randrange(3)}")
        if "." in sid and rng.random() < 0.12:
            # a reference by the SHORT name of a sibling in the same group: no such id exists (ids are absolute)
            group = sid.rsplit(".", 1)[0] + "."
            sibs = [x[len(group):] for x in order if x.startswith(group) and x != sid and "." not in x[len(group):]]
            if sibs:
                parents = [rng.choice(sibs)]
        if rng.random() < 0.3:
            parents = []
        return colorgen.gen_descr(rng, parents, dash_ok)

    # synthetic component defaults
    for c in comps:
        c["defaults"] = None if c.get("no_defaults") else colorgen.nest({sid: descr_for(sid) for sid in c["ids"]}, rng)
        acc = {f"a{k}": sid for k, sid in enumerate(c["ids"])}
        if c.get("no_defaults"):
            pids = [sid for x in comps if x["name"] in c["parents"] for sid in x["ids"]]
            acc = {f"p{k}": sid for k, sid in enumerate(pids[:3])}
        if rng.random() < 0.5:
            acc["other"] = rng.choice(order)          # accessor to somebody else's id
        if rng.random() < 0.2:
            acc["nobody"] = "NOBODY.ID"               # nobody registers it: falls back to TEXT
        c["accessors"] = acc
    # user descriptions
    usr_descr = {sid: descr_for(sid) for sid in usr}
    never = [sid for sid in usr if rng.random() < 0.15]
    # explicit configuration: may describe anything (it must win)
    n_init = rng.choice([0, 1, 2, 3, 5, 8])
    init_ids = rng.sample(order, min(n_init, len(order)))
    init_flat = {sid: descr_for(sid) for sid in init_ids}
    if comps and rng.random() < 0.12:
        # a component ships a syntactically broken default for an id that the explicit configuration
        # describes: with this configuration the default is never looked at; a configuration without
        # the item rejects the component (a fault, injected through the global-configuration ops)
        c = rng.choice([x for x in comps if not x.get("no_defaults")])
        bad_id = c["name"].upper() + ".BROKEN"
        c["bad"] = {"id": bad_id, "descr": rng.choice(["RED:BLUE", "a:b:c:d", "RED:boldd"])}
        c["defaults"] = dict(flatten(c["defaults"]))
        c["defaults"][bad_id] = c["bad"]["descr"]
        init_flat[bad_id] = colorgen.gen_descr(rng, [], dash_ok)
    init = colorgen.nest(init_flat, rng)
    init_alias = []
    groups = [k for k, v in (init or {}).items() if isinstance(v, dict)]
    if groups and rng.random() < 0.3:
        # the very same dict object used for two groups of the configuration (e.g. a YAML alias)
        init_alias.append([rng.choice(groups), "ALIAS" + str(rng.randrange(3))])
    if not init and rng.random() < 0.5:
        init = None
    elif rng.random() < 0.1:
        # values that are neither descriptions nor groups are ignored by the configuration
        init["JUNK.NUM"] = 5
        init["JUNK.LIST"] = ["RED"]
        init["JUNK.NONE"] = None
    # delivery schedule
    deliveries = [{"op": "use", "comp": c["name"], "no_color": rng.random() < 0.15} for c in comps]
    deliveries += [{"op": "use", "comp": n, "no_color": rng.random() < 0.15} for n in real_used]
    if deep:
        never = [sid for sid in never if not sid.startswith("CH.L")]
    todo = [sid for sid in usr if sid not in never]
    rng.shuffle(todo)
    if deep and rng.random() < 0.6:
        # the whole chain arrives together
        deliveries.append({"op": "batch", "items": {sid: usr_descr[sid] for sid in todo if sid.startswith("CH.L")}})
        todo = [sid for sid in todo if not sid.startswith("CH.L")]
    while todo:
        k = rng.randint(1, len(todo))
        batch, todo = todo[:k], todo[k:]
        deliveries.append({"op": "batch", "items": {sid: usr_descr[sid] for sid in batch}})
    rng.shuffle(deliveries)
    if rng.random() < 0.12:
        bad = {f"POISON.{i}": colorgen.gen_descr(rng, order, dash_ok) for i in range(rng.randint(0, 2))}
        bad["POISON.BAD"] = rng.choice(colorgen.INVALID_SAMPLES)
        if rng.random() < 0.5:
            bad["POISON.AFTER"] = "RED"
        deliveries.insert(rng.randrange(len(deliveries) + 1), {"op": "poison", "items": bad})
    ops = []
    synced_cands = [c["name"] for c in comps] + [n for n in real_used if n not in COMPOUND]
    for d in deliveries:
        r = rng.random()
        if r < 0.25:
            ops.append({"op": "read"})
        elif r < 0.40:
            ops.append({"op": "make_global"})
        elif r < 0.48:
            ops.append({"op": "global_other"})
        elif r < 0.62 and synced_cands:
            ops.append({"op": "synced", "comp": rng.choice(synced_cands)})
        elif r < 0.74:
            if rng.random() < 0.12:
                # the application goes on with a deep copy of its configuration (a "preview" mode, a worker's copy)
                ops.append({"op": "deepcopy"})
            elif rng.random() < 0.25:
                # a palette of a configuration the caller does not keep: ColorsConfig(explicit).get_palette()
                ops.append({"op": "orphan_palette", "gc": rng.random() < 0.5})
            elif synced_cands and rng.random() < 0.25:
                # a settings dialog previews a component under short-lived configurations, one after another: each
                # is made, asked for the component's palette and let go before the next one is made
                ops.append({"op": "preview", "comp": rng.choice(synced_cands), "n": rng.randint(2, 3)})
            else:
                ops.append({"op": "get_palette", "comp": rng.choice(synced_cands) if synced_cands and rng.random() < 0.4 else None})
        elif r < 0.79:
            # a report is only a view: asking for one (also of the global configuration) changes nothing
            ops.append({"op": "report", "of": rng.choice(["M", "M", "G"])})
        ops.append(d)
        if rng.random() < 0.15:
            # the same component again: registration must be idempotent
            ops.append(dict(d) if d["op"] == "use" else {"op": "read"})
    if rng.random() < 0.5:
        ops.append({"op": "make_global"})
    return {"no_color": no_color, "init": init, "init_alias": init_alias, "components": comps, "ops": ops,
            "conf_subclass": rng.random() < 0.1,
            # the application route: cli_tools.std_app_configure(args, syntax_amends=<explicit configuration>) builds
            # the configuration and makes it the global one
            "via_app": rng.choice(["dict", "list1"]) if rng.random() < 0.12 else None,
            # the application declares its syntax ids once, as members of a `class Synt(str, Enum)`, and uses the
            # members wherever an id goes (keys of flat description dicts, look-ups): each IS a str equal to the id
            "keys_as": "strenum" if rng.random() < 0.06 else None,
            # the explicit configuration arrives as a mapping that is not a dict: the application's layered settings
            # (ChainMap: overrides over the user's file over the site's) or a read-only view (MappingProxyType)
            "init_as": rng.choice(["chainmap", "proxy"]) if rng.random() < 0.08 else None}


def simplify(trace):
    """shrink candidates beyond dropping ops: fewer explicit items, fewer components, smaller batches"""
    flat = flatten(trace["init"] or {})
    for k in sorted(flat):
        rest = {a: b for a, b in flat.items() if a != k}
        yield dict(trace, init=rest)
    if trace["init"] is not None and flat != trace["init"]:
        yield dict(trace, init=flat)
    used = {op.get("comp") for op in trace["ops"]}
    needed = set()
    for c in trace["components"]:
        if c["name"] in used:
            needed.add(c["name"])
            needed.update(c["parents"])
    for _ in range(len(trace["components"])):
        for c in trace["components"]:
            if c["name"] in needed:
                needed.update(c["parents"])
                if c.get("pybase"):
                    needed.add(c["pybase"])
    for c in trace["components"]:
        if c["name"] not in needed:
            yield dict(trace, components=[x for x in trace["components"] if x is not c])
    for c in trace["components"]:
        if c["parents"] and not c.get("pybase"):
            yield dict(trace, components=[dict(x, parents=[]) if x is c else x for x in trace["components"]])
        fl = flatten(c["defaults"] or {})
        if len(fl) > 1:
            for k in sorted(fl):
                nd = {a: b for a, b in fl.items() if a != k}
                na = {a: b for a, b in c["accessors"].items() if b != k}
                yield dict(trace, components=[dict(x, defaults=nd, accessors=na, ids=sorted(nd)) if x is c else x
                                              for x in trace["components"]])
    for i, op in enumerate(trace["ops"]):
        if op["op"] in ("batch", "poison") and len(op["items"]) > 1:
            for k in sorted(op["items"]):
                if k == "POISON.BAD":
                    continue
                ni = {a: b for a, b in op["items"].items() if a != k}
                yield dict(trace, ops=trace["ops"][:i] + [dict(op, items=ni)] + trace["ops"][i + 1:])


# --------------------------------------------------------------------------
# execution

_ID_MEMBERS = {}


def id_member(sid):
    """the id as a member of the caller's (str, Enum) class"""
    if sid not in _ID_MEMBERS:
        import enum
        _ID_MEMBERS[sid] = enum.Enum("Synt", {"ID": sid}, type=str).ID
    return _ID_MEMBERS[sid]


def caller_keys(trace, flat_items):
    """a flat {id: description} dict as the caller writes it"""
    if trace.get("keys_as") == "strenum" and all(isinstance(v, str) for v in flat_items.values()):
        return {id_member(k): v for k, v in flat_items.items()}
    return dict(flat_items)


def model_init(trace):
    """the explicit configuration as the reference resolver reads it (plain string ids, a plain dict)"""
    return real_init(dict(trace, keys_as=None, init_as=None))


def real_init(trace):
    """the explicit configuration as handed to the constructor: aliased groups are the SAME dict object"""
    init = trace.get("init")
    if init is None:
        return None
    init = json.loads(json.dumps(init))
    for src, dst in trace.get("init_alias") or ():
        if isinstance(init.get(src), dict) and dst not in init:
            init[dst] = init[src]
    if trace.get("keys_as") == "strenum" and not (trace.get("init_alias") or ()):
        init = caller_keys(trace, init)
    how = trace.get("init_as") if not trace.get("via_app") else None     # (the application helper wants a dict)
    if how == "proxy":
        import types
        init = types.MappingProxyType(init)
    elif how == "chainmap":
        import collections
        keys = list(init)
        upper = {k: init[k] for k in keys[::2]}
        lower = {k: init[k] for k in keys[1::2]}
        lower.update({k: "RED" for k in keys[::4]})       # shadowed by the upper layer
        init = collections.ChainMap(upper, lower)
    return init


def conf_class(trace, color):
    if not trace.get("conf_subclass"):
        return color.ColorsConfig

    class AppColorsConfig(color.ColorsConfig):
        """a user's subclass with more built-in syntax"""
        __slots__ = ()
        BUILT_IN_CONFIG = dict(color.ColorsConfig.BUILT_IN_CONFIG, **{"APP.MARK": "CYAN:bold", "APP.SUB": "APP.MARK:no_bold"})
    return AppColorsConfig


class World:
    def __init__(self, trace, log):
        from ak import color
        self.color = color
        self.trace = trace
        self.log = log
        self.no_color = bool(trace.get("no_color"))
        self.conf_cls = conf_class(trace, color)
        self.preview_cls = None
        self.builtin_flat = flatten(self.conf_cls.BUILT_IN_CONFIG)
        self.default_builtin_flat = flatten(color.ColorsConfig.BUILT_IN_CONFIG)
        self.classes = {}
        self.comp_spec = {c["name"]: c for c in trace["components"]}
        self.stats = {"deliveries": 0, "late_resolutions": 0, "explicit_wins": 0, "checks": 0, "global_checks": 0,
                      "synced_checks": 0, "palette_checks": 0, "poison": 0, "unresolved_seen": 0, "reads": 0,
                      "global_switch": 0, "synced_created": 0, "nocolor_runs": 1 if self.no_color else 0,
                      "skipped_cyclic": 0, "reports_compared": 0}
        self.quarantine = set()
        self.used = []          # components registered in M (names)
        self.synced = []        # [(name, palette)]
        self.keys_as_enum = trace.get("keys_as") == "strenum"
        self.orphans = []       # palettes whose configuration object the caller dropped: [(palette, registry)]
        self.held = []          # palettes obtained earlier and kept: [(palette, comp name | None, {id: style then})]
        self.delivered_log = []  # canonical record of what M received: [("comp", name) | ("batch", items)]

    # -- helpers
    def sut(self, what, fn, *a, **kw):
        try:
            return fn(*a, **kw)
        except Violation:
            raise
        except Exception as e:
            raise Violation("delivery", f"{what}-raised-{type(e).__name__}", f"{what}: {e!r}")

    def cls(self, name):
        if name in self.classes:
            return self.classes[name]
        if name in REAL:
            c = _real_class(name)
        else:
            c = self.make_synthetic(name)
        self.classes[name] = c
        return c

    def make_synthetic(self, name):
        color = self.color
        spec = self.comp_spec[name]
        ns = {"SYNTAX_DEFAULTS": spec["defaults"],
              "PARENT_PALETTES": [self.cls(p) for p in spec["parents"] if p in self.comp_spec] or None}
        bases = (color.Palette,)
        late = None
        full = spec["defaults"]
        if spec.get("late_defaults") and isinstance(full, dict) and full and not spec.get("pybase"):
            keys = list(full)
            if spec["late_defaults"] == "in_place":
                late = ("in_place", {k: full[k] for k in keys[1:]})
                ns["SYNTAX_DEFAULTS"] = {keys[0]: full[keys[0]]}
            else:
                late = ("assigned", full)
                ns["SYNTAX_DEFAULTS"] = {}
        if spec.get("pybase") in self.comp_spec:
            ns = {"__doc__": "derived from another palette class"}
            bases = (self.cls(spec["pybase"]),)
        for acc, sid in spec["accessors"].items():
            ns[acc] = color.ConfColor(sid)
        cls = self.sut(f"class {name}", type, spec.get("cls_name", name), bases, ns)
        if late is not None and not (spec.get("pybase") in self.comp_spec):
            if late[0] == "in_place":
                cls.SYNTAX_DEFAULTS.update(late[1])
            else:
                cls.SYNTAX_DEFAULTS = late[1]
            self.stats["late_default_tables"] = self.stats.get("late_default_tables", 0) + 1
        return cls

    def accessors(self, name):
        if name in REAL:
            return REAL[name][1]
        spec = self.comp_spec[name]
        acc = {}
        if spec.get("pybase") in self.comp_spec:
            acc.update(self.accessors(spec["pybase"]))
        acc.update(spec["accessors"])
        acc["text"] = "TEXT"
        return acc

    def comp_defaults(self, name, seen=None):
        """flat {id: descr} a first use of the component delivers, parents first"""
        out = []
        seen = set() if seen is None else seen
        if name in seen:
            return out
        seen.add(name)
        c = self.cls(name)
        spec = self.comp_spec.get(name)
        if spec and spec.get("pybase") in self.comp_spec:
            # everything is inherited from the base class: its parents, then its table - under this class's name
            inherited = self.comp_defaults(spec["pybase"], set())
            return out + inherited[:-1] + [(name, inherited[-1][1])]
        for p in (getattr(c, "PARENT_PALETTES", None) or ()):
            pname = next((n for n, k in self.classes.items() if k is p), None)
            if pname is None:
                # a real parent class that the world has not named yet
                pname = next((n for n in REAL if _real_class(n) is p), None)
                if pname is not None:
                    self.classes[pname] = p
            if pname is not None:
                out += self.comp_defaults(pname, seen)
            else:
                out.append((None, flatten(getattr(p, "SYNTAX_DEFAULTS", None) or {})))
        out.append((name, flatten(getattr(c, "SYNTAX_DEFAULTS", None) or {})))
        return out

    def broken_for(self, reg, name, seen=None):
        """does a first use of `name` with a configuration described by `reg` hit a broken default?"""
        seen = set() if seen is None else seen
        if name in seen or name not in self.comp_spec:
            return False
        seen.add(name)
        spec = self.comp_spec[name]
        if spec.get("bad") and spec["bad"]["id"] not in reg.items:
            return True
        if spec.get("pybase") and self.broken_for(reg, spec["pybase"], seen):
            return True
        return any(self.broken_for(reg, p, seen) for p in spec.get("parents", ()))

    def deliver_comp(self, reg, name, registered):
        before = {sid: reg.is_resolved(sid) for sid in reg.items}
        for pname, flat in self.comp_defaults(name):
            if pname is not None and pname in registered:
                continue
            if pname is not None:
                registered.append(pname)
            for sid in flat:
                if sid in reg.items:
                    self.stats["explicit_wins"] += 1
            reg.deliver(flat)
        self.count_late(reg, before)

    def count_late(self, reg, before):
        for sid, was in before.items():
            if not was and reg.is_resolved(sid):
                self.stats["late_resolutions"] += 1

    # -- checks
    def accessor(self, pal, name, acc):
        """an accessor of the hard-coded table that a (legitimate) refactoring removed is skipped, not an error"""
        try:
            return getattr(pal, acc)
        except AttributeError:
            if name in REAL:
                self.stats["accessors_missing"] = self.stats.get("accessors_missing", 0) + 1
                return None
            raise Violation("resolve", "declared-accessor-missing", f"{name}.{acc}")

    def decode(self, fmt, where, sid):
        try:
            return sgr.decode_fmt_output(str(fmt("x")))
        except ValueError as e:
            raise Violation("resolve", "malformed-output", f"{where} id {sid!r}: {e}")

    def compare(self, got, want, where, sid, extra=""):
        self.stats["checks"] += 1
        if got == want:
            return
        if want == PLAIN:
            klass = "effects-on-effect-free-id"
        elif got == PLAIN:
            klass = "uncoloured-but-resolvable"
        else:
            klass = "wrong-style"
        raise Violation("resolve", f"{where}:{klass}",
                        f"{where} id {sid!r}: formatter gives {fmt_style(got)}, model {fmt_style(want)} {extra}")

    def check_conf(self, conf, reg, registered, label):
        nc = self.no_color if label == "M" else False
        probe = ["NOPE.X", "", "TEXT.NOPE"]
        ids = sorted(set(reg.items) | set(probe))
        for sid in ids:
            if sid in self.quarantine or self.touches_quarantine(reg, sid):
                continue
            want = reg.style(sid, nc)
            if sid in reg.items and not reg.is_resolved(sid):
                self.stats["unresolved_seen"] += 1
            key = id_member(sid) if (self.keys_as_enum and len(sid) % 3 == 0) else sid
            self.compare(self.decode(conf.get_color(key), "get_color", sid), want, "get_color", sid)
        # palettes obtained from the configuration reflect its current state
        gp = conf.get_palette()
        for sid in ids[:: max(1, len(ids) // 6)] + [x for x in ids if x in ODD_IDS]:
            if sid in self.quarantine or self.touches_quarantine(reg, sid):
                continue
            self.compare(self.decode(gp[sid], "get_palette()[id]", sid), reg.style(sid, nc), "get_palette", sid)
        for acc, sid in GLOBAL_ACCESSORS.items():
            if self.touches_quarantine(reg, sid):
                continue
            self.stats["palette_checks"] += 1
            self.compare(self.decode(getattr(gp, acc), f"get_palette().{acc}", sid), reg.style(sid, nc),
                         "get_palette-accessor", sid)
        for name in registered:
            p = self.cls(name)(conf)
            for acc, sid in self.accessors(name).items():
                if self.touches_quarantine(reg, sid):
                    continue
                self.stats["palette_checks"] += 1
                f = self.accessor(p, name, acc)
                if f is None:
                    continue
                self.compare(self.decode(f, f"{name}(conf).{acc}", sid), reg.style(sid, nc),
                             "component-palette", sid, f"(accessor {name}.{acc})")
            if self.stats["checks"] % 3 == 0:
                self.check_palette_report(p, f"{name}(conf)", self.accessors(name), reg, nc, strict=name not in REAL)
        if self.stats["checks"] % 3 == 1:
            self.check_palette_report(gp, "get_palette()", GLOBAL_ACCESSORS, reg, nc, strict=False)

    def check_palette_report(self, pal, where, accessors, reg, nc, strict):
        """Palette.make_report(): the line of an accessor ('<accessor>: ...', the layout the repository's tests
        parse) is coloured with the style of the accessor's syntax id as the configuration resolves it now, and
        with nothing else.  Layout, order and wording are the package's business."""
        text = self.sut(f"{where}.make_report", pal.make_report)
        if not isinstance(text, str):
            raise Violation("report", "palette-report-not-a-text", f"{where}: {type(text).__name__}")
        for line in text.split("\n"):
            try:
                cells = sgr.parse_cells(line)
            except ValueError as e:
                raise Violation("report", "palette-report-line", f"{where}: {line!r}: {e}")
            acc = "".join(ch for ch, _ in cells).split(":")[0].strip()
            sid = accessors.get(acc)
            if sid is None or self.touches_quarantine(reg, sid):
                continue
            styles = {st for ch, st in cells if st != PLAIN and not ch.isspace()}
            want = reg.style(sid, nc)
            if sid == "" and not styles:
                continue                # nothing is shown of an empty id: no character carries a style
            self.stats["palette_report_items"] = self.stats.get("palette_report_items", 0) + 1
            if len(styles) > 1:
                raise Violation("report", "palette-report-item", f"{where} line {acc!r}: several styles: {line!r}")
            self.compare(styles.pop() if styles else PLAIN, want, "palette-report", sid,
                         f"(line {acc!r} of {where}.make_report())")

    def hold(self, conf, reg, name=None):
        """obtain a palette from the configuration now and keep it: whatever becomes global later, it goes on
        showing this configuration (as it was at some moment since the palette was obtained: the statement
        does not say when a palette reads the configuration)"""
        nc = self.no_color
        pal = self.sut("get_palette", conf.get_palette) if name is None else self.sut(f"{name}(conf)", self.cls(name), conf)
        ids = sorted(set(reg.items) | {"NOPE.H"})
        then = {sid: {reg.style(sid, nc)} for sid in ids}      # every state the configuration showed since
        if len(self.held) >= 4:
            self.held.pop(0)
        self.held.append([pal, name, then, reg])
        self.stats["held"] = self.stats.get("held", 0) + 1

    def check_orphans(self):
        """a palette outlives the caller's reference to its configuration: it goes on showing that configuration"""
        nc = self.no_color
        for pal, reg in self.orphans:
            ids = sorted(set(reg.items) | {"NOPE.O"})
            for sid in ids[:: max(1, len(ids) // 5)]:
                self.compare(self.decode(self.sut("orphan palette[id]", pal.__getitem__, sid), "orphan-palette[id]", sid),
                             reg.style(sid, nc), "orphan-palette", sid)
            for acc, sid in GLOBAL_ACCESSORS.items():
                self.compare(self.decode(getattr(pal, acc), f"orphan-palette.{acc}", sid), reg.style(sid, nc),
                             "orphan-palette-accessor", sid)

    def check_held(self):
        """every kept palette is compared with the registry of the configuration object it was obtained from"""
        nc = self.no_color
        for pal, name, then, reg in self.held:
            for sid in list(then):
                then[sid].add(reg.style(sid, nc))
            if name is None:
                pairs = [(sid, None) for sid in list(then)[:: max(1, len(then) // 5)]] + \
                        [(sid, acc) for acc, sid in GLOBAL_ACCESSORS.items()]
            else:
                pairs = [(sid, acc) for acc, sid in self.accessors(name).items()]
            for sid, acc in pairs:
                if sid in self.quarantine or self.touches_quarantine(reg, sid):
                    continue
                if acc is None:
                    f = pal[sid]
                else:
                    f = self.accessor(pal, name, acc) if name else getattr(pal, acc)
                    if f is None:
                        continue
                got = self.decode(f, "held-palette", sid)
                now = reg.style(sid, nc)
                seen = then.setdefault(sid, set(then.get("NOPE.H", ())))
                seen.add(now)
                self.stats["held_checks"] = self.stats.get("held_checks", 0) + 1
                if got not in seen:
                    raise Violation("resolve", "held-palette:wrong-style",
                                    f"a palette obtained from the configuration earlier ({name or 'get_palette()'}) gives "
                                    f"{fmt_style(got)} for id {sid!r}; since then the configuration has said "
                                    f"{' / '.join(sorted(fmt_style(x) for x in seen))}")

    def touches_quarantine(self, reg, sid):
        if not self.quarantine:
            return False
        seen = 0
        cur = sid if sid in reg.items else "TEXT"
        while cur is not None and seen < 60:
            if cur in self.quarantine:
                return True
            d = reg.items.get(cur)
            if d is None:
                return False
            cur = d.parent
            seen += 1
        return False

    def check_global(self, gconf, greg, glabel):
        color = self.color
        nc = self.no_color if glabel == "M" else False
        gp = color.global_palette
        ids = sorted(set(greg.items) | {"NOPE.G"})
        for sid in ids[:: max(1, len(ids) // 8)]:
            if self.touches_quarantine(greg, sid):
                continue
            self.stats["global_checks"] += 1
            self.compare(self.decode(gp[sid], "global_palette[id]", sid), greg.style(sid, nc), "global_palette", sid)
        for acc, sid in GLOBAL_ACCESSORS.items():
            if self.touches_quarantine(greg, sid):
                continue
            self.stats["global_checks"] += 1
            self.compare(self.decode(getattr(gp, acc), f"global_palette.{acc}", sid), greg.style(sid, nc),
                         "global_palette-accessor", sid)
        for name, pal in self.synced:
            for acc, sid in self.accessors(name).items():
                if self.touches_quarantine(greg, sid):
                    continue
                self.stats["synced_checks"] += 1
                f = self.accessor(pal, name, acc)
                if f is None:
                    continue
                self.compare(self.decode(f, f"synced {name}.{acc}", sid), greg.style(sid, nc),
                             "synced-palette", sid, f"(accessor {name}.{acc})")
            # ... and in the palette's report
            self.check_palette_report(pal, f"synced {name}", self.accessors(name), greg, nc, strict=name not in REAL)
        self.check_palette_report(gp, "global_palette", GLOBAL_ACCESSORS, greg, nc, strict=False)


def fmt_style(st):
    if st == PLAIN:
        return "plain"
    return f"fg={st[0]} bg={st[1]} effects={sorted(st[2])}" if len(st) == 3 else repr(st)


def full_set_is_acyclic(world, trace):
    """guard: the generated set must be acyclic also together with the real defaults"""
    reg = Registry()
    try:
        reg.deliver(flatten(model_init(trace) or {}))
        reg.deliver(world.builtin_flat)
        for op in trace["ops"]:
            if op["op"] == "use" and (op["comp"] in REAL or op["comp"] in world.comp_spec):
                for _, flat in world.comp_defaults(op["comp"]):
                    reg.deliver(flat)
            elif op["op"] == "batch":
                reg.deliver(op["items"])
    except Invalid:
        return False
    for sid in reg.items:
        seen = set()
        cur = sid
        while cur is not None and cur in reg.items:
            if cur in seen:
                return False
            seen.add(cur)
            cur = reg.items[cur].parent
    return True


def execute(trace, rng):
    log = EventLog()
    rw.gc.disable()
    from ak import color
    # ids inside the package are simulated: an object keeps its id while alive, the id of a dead object goes to
    # the next new one (what CPython's allocator does often, here always and reproducibly)
    rw.install_id_seam("always", 14)
    w = World(trace, log)
    status = {"status": OK}
    try:
        if not full_set_is_acyclic(w, trace):
            w.stats["skipped_cyclic"] += 1
            raise _Skip()
        nc = w.no_color
        if trace.get("via_app"):
            M = app_configured(w, trace, nc)
        else:
            M = w.sut("ColorsConfig(init)", w.conf_cls, real_init(trace), no_color=nc)
        regM = Registry()
        regM.deliver(flatten(model_init(trace) or {}))
        before = {sid: regM.is_resolved(sid) for sid in regM.items}
        regM.deliver(w.builtin_flat)
        w.count_late(regM, before)
        w.stats["explicit_wins"] += sum(1 for sid in flatten(model_init(trace) or {}) if sid in w.builtin_flat)
        # the import-time global configuration: built-ins only
        G = color.get_global_colors_config()
        regG = Registry()
        regG.deliver(w.default_builtin_flat)
        g_registered = []
        glabel = "O"
        if trace.get("via_app"):
            G, regG, g_registered, glabel = M, regM, w.used, "M"
            w.stats["global_switch"] += 1
            w.stats["app_configured"] = 1
        w.check_conf(M, regM, w.used, "M")
        for n, op in enumerate(trace["ops"]):
            k = op["op"]
            if k == "use":
                name = op["comp"]
                if name not in REAL and name not in w.comp_spec:
                    continue
                cls = w.cls(name)
                if op.get("no_color"):
                    p = w.sut(f"{name}(conf, no_color=True)", cls, M, True)
                    for acc, sid in w.accessors(name).items():
                        f = w.accessor(p, name, acc)
                        if f is not None:
                            w.compare(w.decode(f, f"{name}(no_color).{acc}", sid), PLAIN, "no_color-palette", sid)
                else:
                    w.sut(f"{name}(conf)", cls, M)
                w.deliver_comp(regM, name, w.used)
                w.delivered_log.append(["comp", name])
                w.stats["deliveries"] += 1
            elif k == "batch":
                before = {sid: regM.is_resolved(sid) for sid in regM.items}
                w.stats["explicit_wins"] += sum(1 for sid in op["items"] if sid in regM.items)
                # the caller's dict: its own table of colours, which it may register elsewhere as well
                passed = caller_keys(trace, op["items"])
                w.sut("add_new_items", M.add_new_items, passed, "user")
                plain = {getattr(k, "value", k): v for k, v in passed.items()}
                if plain != dict(op["items"]) or len(passed) != len(op["items"]):
                    raise Violation("delivery", "callers-items-modified",
                                    f"add_new_items changed the dict it was given: {sorted(plain)} "
                                    f"(was {sorted(op['items'])})")
                regM.deliver(op["items"])
                w.count_late(regM, before)
                w.delivered_log.append(["batch", op["items"]])
                w.stats["deliveries"] += 1
            elif k == "poison":
                try:
                    M.add_new_items(dict(op["items"]), "user")
                    raised = False
                except ValueError:
                    raised = True
                except Exception as e:
                    raise Violation("delivery", f"poisoned-batch-raised-{type(e).__name__}", repr(e))
                if not raised:
                    raise Violation("delivery", "invalid-description-accepted",
                                    f"add_new_items accepted {op['items']!r}")
                w.quarantine.update(op["items"])
                w.stats["poison"] += 1
            elif k == "read":
                w.stats["reads"] += 1
            elif k == "make_global":
                w.sut("set_global_colors_config(conf)", color.set_global_colors_config, M)
                G, regG, g_registered, glabel = M, regM, w.used, "M"
                for name, _ in w.synced:
                    w.deliver_comp(regM, name, w.used)
                w.stats["global_switch"] += 1
            elif k == "global_other":
                regG = Registry()
                regG.deliver(w.default_builtin_flat)
                if any(w.broken_for(regG, name) for name, _ in w.synced):
                    # fault: a synced component cannot register in a configuration without the masking item.
                    # The call may raise; the new global configuration and the synced palettes are then in
                    # an unspecified state until a configuration that accepts everything becomes global
                    try:
                        color.set_global_colors_config(None)
                    except ValueError:
                        pass
                    w.stats["sync_faults"] = w.stats.get("sync_faults", 0) + 1
                    G = color.get_global_colors_config()
                    g_registered = []
                    glabel = "tainted"
                    log.add("op", n, k, "fault")
                    w.check_conf(M, regM, w.used, "M")
                    continue
                w.sut("set_global_colors_config(None)", color.set_global_colors_config, None)
                G = color.get_global_colors_config()
                g_registered = []
                glabel = "O"
                for name, _ in w.synced:
                    w.deliver_comp(regG, name, g_registered)
                w.stats["global_switch"] += 1
            elif k == "synced":
                name = op["comp"]
                if (name not in REAL and name not in w.comp_spec) or name in COMPOUND:
                    continue
                cls = w.cls(name)
                if glabel == "tainted" or (G is not M and w.broken_for(regG, name)):
                    # the global configuration cannot take this component (or is in an unspecified state)
                    try:
                        pal = cls(synced=True)
                    except ValueError:
                        pal = None
                    if pal is not None and not any(nm == name for nm, _ in w.synced):
                        # (a second attempt succeeds: the class counts as registered after the failed first one)
                        w.synced.append((name, pal))
                    if glabel != "tainted":
                        w.stats["sync_faults"] = w.stats.get("sync_faults", 0) + 1
                        glabel = "tainted"
                    continue
                pal = w.sut(f"{name}(synced=True)", cls, synced=True)
                if not any(nm == name for nm, _ in w.synced):
                    w.synced.append((name, pal))
                    w.stats["synced_created"] += 1
                w.deliver_comp(regG, name, g_registered)
            elif k == "report":
                conf = M if op.get("of") == "M" or glabel == "tainted" else G
                text = w.sut("make_report", conf.make_report)
                if not isinstance(text, str):
                    raise Violation("report", "not-a-text", repr(type(text)))
                w.stats["reports_midway"] = w.stats.get("reports_midway", 0) + 1
            elif k == "deepcopy":
                import copy
                M2 = w.sut("copy.deepcopy(conf)", copy.deepcopy, M)
                if G is M:
                    # the original stays the global configuration, as it is now; it gets no further deliveries
                    regG = copy.deepcopy(regM)
                    g_registered = list(w.used)
                    glabel = "M"
                    old_reg = regG
                else:
                    old_reg = copy.deepcopy(regM)
                # palettes kept by the caller belong to the configuration object they came from - the original, which
                # stays global (and may get the defaults of further components through synced palettes) or is left alone
                for ent in w.held:
                    if ent[3] is regM:
                        ent[3] = old_reg
                M = M2
                w.stats["deep_copies"] = w.stats.get("deep_copies", 0) + 1
            elif k == "orphan_palette":
                conf2 = w.sut("ColorsConfig(init) (temporary)", w.conf_cls, real_init(trace), no_color=nc)
                reg2 = Registry()
                reg2.deliver(flatten(model_init(trace) or {}))
                reg2.deliver(w.builtin_flat)
                pal2 = w.sut("get_palette", conf2.get_palette)
                del conf2
                if op.get("gc"):
                    rw.gc.collect()
                if len(w.orphans) >= 2:
                    w.orphans.pop(0)
                w.orphans.append((pal2, reg2))
                w.stats["orphan_palettes"] = w.stats.get("orphan_palettes", 0) + 1
            elif k == "preview":
                name = op["comp"]
                if name not in REAL and name not in w.comp_spec:
                    continue
                if w.preview_cls is None:
                    # the dialog's own configuration class: a plain subclass (no __slots__), so its objects can be
                    # weakly referenced - which is how the id seam learns that one is gone (ColorsConfig objects
                    # themselves cannot be: their ids are the real ones, the seam is inert for them)
                    w.preview_cls = type("PreviewColorsConfig", (w.conf_cls,), {"__doc__": "configuration of a preview"})
                for _ in range(op.get("n", 2)):
                    conf2 = w.sut("ColorsConfig(init) (preview)", w.preview_cls, real_init(trace), no_color=nc)
                    reg2 = Registry()
                    reg2.deliver(flatten(model_init(trace) or {}))
                    reg2.deliver(w.builtin_flat)
                    used2 = []
                    w.sut(f"{name}(preview conf)", w.cls(name), conf2)
                    w.deliver_comp(reg2, name, used2)
                    w.check_conf(conf2, reg2, used2, "M")
                    del conf2
                    rw.gc.collect()
                    w.stats["previews"] = w.stats.get("previews", 0) + 1
            elif k == "get_palette":
                w.hold(M, regM, op.get("comp") if op.get("comp") in w.used else None)
            else:
                continue
            log.add("op", n, k, op.get("comp"))
            w.check_conf(M, regM, w.used, "M")
            w.check_held()
            w.check_orphans()
            if glabel == "tainted":
                continue
            if G is not M:
                w.check_conf(G, regG, g_registered, "M" if glabel == "M" else "O")
            w.check_global(G, regG, glabel)
        # final: same set, canonical order, pristine process
        if not w.quarantine:
            rep = w.sut("make_report", M.make_report)
            ref = rw.reference({"kind": "c14report", "init": trace["init"], "init_alias": trace.get("init_alias"),
                                "conf_subclass": trace.get("conf_subclass"), "no_color": nc,
                                "components": trace["components"],
                                "delivered": canonical(w.delivered_log)})
            w.stats["reports_compared"] += 1
            if "error" in ref:
                raise Violation("report", "reference-failed", ref["error"])
            fam = report_family(trace["components"])
            if normalise_report(rep, fam) != normalise_report(ref["text"], fam):
                raise Violation("report", "order-dependent-report",
                                "make_report() differs from the report after canonical-order delivery:\n"
                                + first_diff(normalise_report(rep, fam), normalise_report(ref["text"], fam)))
            log.add("report", hashlib.blake2b(rep.encode(), digest_size=8).hexdigest())
    except _Skip:
        pass
    except Violation as v:
        status = violation_result(v)
    st = dict(w.stats)
    st["fault.poisoned_batch"] = st["poison"]
    st["fault.component_rejected_by_global_config"] = st.get("sync_faults", 0)
    st["ref_requests"] = rw.ref_requests()
    nontrivial = bool(w.stats["late_resolutions"] or w.stats["explicit_wins"])
    h = hashlib.blake2b(json.dumps([trace["init"], trace.get("init_alias"), trace.get("conf_subclass"),
                                    trace["components"], trace["ops"], trace.get("no_color"), trace.get("via_app"), trace.get("keys_as"), trace.get("init_as")],
                                   sort_keys=True).encode(), digest_size=8).hexdigest()
    status.update({"digest": log.digest(), "stats": st, "nontrivial": nontrivial, "case": h,
                   "sim_steps": len(trace["ops"])})
    return status


class _Skip(Exception):
    pass


def app_configured(w, trace, nc):
    """the explicit configuration installed the way an application does it: cli_tools.std_app_configure()"""
    import types
    from ak import cli_tools
    amends = real_init(trace)
    if trace["via_app"] == "list1":
        amends = [] if amends is None else [amends]
    args = types.SimpleNamespace(color="never" if nc else "always", _no_log=True, verbose=0)
    kw = {"global_colors_config_class": w.conf_cls} if trace.get("conf_subclass") else {}
    w.sut("std_app_configure", cli_tools.std_app_configure, args, syntax_amends=amends, **kw)
    conf = w.color.get_global_colors_config()
    if type(conf) is not w.conf_cls:
        raise Violation("app", "global-config-of-another-class", f"{type(conf).__name__}")
    return conf


def canonical(delivered):
    """the same set of deliveries in a canonical order: components by name, then one merged user batch"""
    comps = sorted({d[1] for d in delivered if d[0] == "comp"})
    items = {}
    for d in delivered:
        if d[0] == "batch":
            for k2, v in d[1].items():
                items.setdefault(k2, v)
    return {"comps": comps, "items": {k2: items[k2] for k2 in sorted(items)}}


def normalise_report(text, family=()):
    # the source column names the registering party; synthetic classes print their module path.
    # family: printed names of classes that deliver one and the same table (a palette class and the classes derived
    # from it): which of them registers an item first is a matter of order, and is not a colour
    import re
    if family:
        pat = re.compile(r"<- <class '[\w.]*\.(?:" + "|".join(sorted(map(re.escape, family))) + r")'>")
        text = pat.sub("<- <class of the family>", text)
    return "\n".join(line.rstrip() for line in text.split("\n"))


def report_family(components):
    fam = set()
    for c in components:
        if c.get("pybase"):
            fam.add(c.get("cls_name", c["name"]))
            for b in components:
                if b["name"] == c["pybase"]:
                    fam.add(b.get("cls_name", b["name"]))
    # (derivation chains: a base that is itself derived)
    return fam


def first_diff(a, b):
    la, lb = a.split("\n"), b.split("\n")
    for i, (x, y) in enumerate(zip(la, lb)):
        if x != y:
            return f"line {i}: {x!r} != {y!r}"
    return f"length {len(la)} != {len(lb)}"


def reference_report(payload):
    """pristine process: deliver the same set in canonical order, return make_report()"""
    from ak import color
    trace = {"components": payload["components"], "no_color": payload["no_color"], "init": payload["init"], "ops": [],
             "init_alias": payload.get("init_alias"), "conf_subclass": payload.get("conf_subclass")}
    w = World(trace, EventLog())
    try:
        conf = w.conf_cls(real_init(trace), no_color=bool(payload["no_color"]))
        for name in payload["delivered"]["comps"]:
            w.cls(name)(conf)
        if payload["delivered"]["items"]:
            conf.add_new_items(dict(payload["delivered"]["items"]), "user")
        return {"text": conf.make_report()}
    except Exception as e:
        return {"error": f"{type(e).__name__}: {e}"}
