"""C17 - layered HTTP connections compose adapters without side effects.

A growing DAG of connections / method callers over 1-2 underlying connections
is built and used by one history of ops (sequential, or with request segments
run by 2-3 simulated threads), under transport faults.  Every request seen by
the transport and every returned value is compared with the structural model
in sim/models/http_model.py; caller-owned objects are compared with deep
copies taken before each call."""

import copy
import hashlib
import json

from .. import httpworld as hw
from ..core import EventLog, Violation, OK, violation_result
from ..models.http_model import HttpModel, adapters_entries, adapter_entry, auth_entry
from ..threadsim import ThreadSim
from .c16 import gen_policy, hdr

ID = "C17"
ENGINE = "threadsim"
SHRINK_LISTS = ("schedule", "ops")
WATCH_FILES = ("ak/conn_http.py", "ak/mcaller_http.py", "ak/mcaller.py")
REQUIRED_PROBES = ("req_ok", "derive", "clone", "caller_objs_checked")

REAL_VS_STUB = {'real': ['ak.conn_http', 'ak.mcaller_http', 'ak.mcaller (instrumented, every bytecode instruction a pre-emption point)', 'json, urllib.parse, urllib.request.Request, base64, http.client exceptions (atomic steps)'], 'stub': ['the network: urllib.request.OpenerDirector.open -> in-process transport with latency and fault injection', 'threading.Lock/RLock as seen by ak.conn_http -> simulator locks', 'thread scheduling -> seeded baton scheduler', 'random in ak.conn_http -> PRNG derived from the run seed', 'ssl.SSLContext.load_default_certs -> no-op', 'process-global state -> one fresh forked process per run']}

ASSUMPTIONS = ["the structural reference model in sim/models/http_model.py (chain = own adapters then the parent's, snapshot at derivation)", 'urllib Request header capitalisation; urlencode for the query string', 'add_adapter is exercised on connections without dependents only (the statement fixes nothing else)', 'tuples of adapters and direct _HttpConnImpl.do_request calls are outside the statement and not generated']

RULE = ("each run = one seeded history of 8-40 ops over a shared DAG (derive HttpConn/BAuth/ClientAuth/TokenAuth/"
        "prefix/harness-adapter layers, method callers with prefix maps, clone(None|adapter|list|tuple), add_adapter, "
        "requests with all verbs and params/data/header shapes, raw responses) with per-request transport faults; one "
        "run in three executes request segments with 2-3 bytecode-interleaved threads. Non-trivial iff the history "
        "contains a request issued through a node that is older than some later derivation/clone/add_adapter "
        "(interference opportunity) and at least one chain of length >= 2; distinct = digest of (ops, schedule).")

VERBS = ("get", "post", "put", "delete", "patch")
PREFIXES = ("/p", "/api/", "/v1", "/x/y", "/svc/")


def init_zygote():
    hw.init_zygote()


def batch_meta():
    from ..threadsim import cover_totals
    return {"pp_totals": cover_totals()}


# --------------------------------------------------------------------------
# generation

class _GNode:
    __slots__ = ("kind", "auth", "is_mc", "dependents", "impl", "has_prefix", "methods", "born", "depth")

    def __init__(self, kind, auth, impl, is_mc=False, has_prefix=False, born=0):
        self.kind = kind
        self.auth = auth
        self.impl = impl
        self.is_mc = is_mc
        self.dependents = 0
        self.has_prefix = has_prefix
        self.methods = None
        self.born = born
        self.depth = 0


def _gen_auth_adapter(rng):
    # small pools: same login with another password, tokens without description etc. do occur
    kind = rng.choice(["bauth", "bauth", "token", "client"])
    if kind == "bauth":
        return {"a": "auth", "kind": kind, "login": rng.choice(["user", "root"]), "password": rng.choice(["pw1", "pw2", "p:w", "p@ss w%rd|", ""])}
    if kind == "token":
        return {"a": "auth", "kind": kind, "token": rng.choice(["tokA", "tokB", "a.b.c", "t|k:1", "50%&x=y", "two words", "{j}~+/=="]),
                "token_descr": rng.choice([None, None, "descr"])}
    return {"a": "auth", "kind": kind, "client_name": rng.choice(["cl", "cl2"]), "client_id": rng.choice(["cid", "c/id", "c id|1"]),
            "client_secret": rng.choice(["s3cr3t", "other", "s:e c%r&t="])}


MIXIN_METHODS = [{"name": "m0", "components": None}, {"name": "m_cA", "components": ["cA"]},
                 {"name": "m_cB", "components": ["cB"]}, {"name": "m_cE", "components": ["cE"]},
                 {"name": "mx_cA", "components": ["absent", "cA"]}, {"name": "mx_cB", "components": ["absent", "cB"]}]
_POOL = []      # adapter specs with a pool key generated so far in this run (reset by generate)


def _gen_adapter(rng, uid, allow_prefix=True, allow_auth=False):
    if _POOL and rng.random() < 0.12:
        a = rng.choice(_POOL)
        if a["a"] != "auth" or allow_auth:
            return dict(a)          # the very same adapter object again
    a = _gen_adapter_new(rng, uid, allow_prefix, allow_auth)
    if rng.random() < 0.3:
        a["pool"] = f"p{uid}"
        _POOL.append(dict(a))
    return a


def _gen_adapter_new(rng, uid, allow_prefix=True, allow_auth=False):
    r = rng.random()
    if allow_auth and r < 0.25:
        return _gen_auth_adapter(rng)
    nd = rng.random() < 0.3
    if r < 0.5:
        a = {"a": "hdr", "name": f"X-Ad-{uid}", "value": f"v{uid}"}
        if rng.random() < 0.15:
            a["falsy"] = True       # the adapter object is an (empty) container as well: bool(adapter) is False
            return a
        if rng.random() < 0.15:
            a["rebind"] = True      # "defaults merged with what is there": assigns a new mapping to req_args.headers
    elif r < 0.56:
        return {"a": "drop", "tag": f"d{uid}"}
    elif r < 0.64:
        return {"a": "fail", "name": f"X-Fail-{uid}", "value": f"f{uid}"}
    elif r < 0.8 or not allow_prefix:
        a = {"a": "wrap", "tag": f"w{uid}"}
    else:
        return {"a": "prefix", "prefix": rng.choice(PREFIXES)}
    if nd:
        a["nodescr"] = True
    return a


def _gen_adapters_arg(rng, uid, allow_auth=False):
    r = rng.random()
    if r < 0.2:
        return None
    if r < 0.5:
        return _gen_adapter(rng, f"{uid}a", allow_auth=allow_auth)
    n = rng.choice([0, 1, 2, 2, 3])
    items = []
    for i in range(n):
        a = _gen_adapter(rng, f"{uid}{'abc'[i]}", allow_auth=allow_auth)
        if a["a"] == "auth":
            allow_auth = False          # at most one authenticating layer per chain
        items.append(a)
    # tuples are not generated: the docstrings of HttpConn / clone promise "a list of adapters
    # or a single adapter" only (a tuple passes the isinstance test but fails on list + tuple)
    return {"list": items}


def _sibling_spec(rng, spec, uid):
    """same shape (kinds, description-relevant fields), other behaviour: what a cache keyed too coarsely confuses"""
    def mut(a, i):
        a = dict(a)
        a.pop("pool", None)
        if a["a"] == "hdr":
            a["name"], a["value"] = f"X-Ad-{uid}{i}", f"v{uid}{i}"
        elif a["a"] == "wrap":
            a["tag"] = f"w{uid}{i}"
        elif a["a"] == "drop":
            a["tag"] = f"d{uid}{i}"
        elif a["a"] == "fail":
            a["name"], a["value"] = f"X-Fail-{uid}{i}", f"f{uid}{i}"
        elif a["a"] == "auth":
            if a["kind"] == "bauth":
                a["password"] = a["password"] + "-other"
            elif a["kind"] == "token":
                a["token"] = a["token"] + "-other"
            else:
                a["client_secret"] = a["client_secret"] + "-other"
                a["client_id"] = a["client_id"] + "2"
        return a
    if spec is None:
        return None
    if "list" in spec:
        return {"list": [mut(a, i) for i, a in enumerate(spec["list"])]}
    return mut(spec, 0)


def _has_auth(spec):
    if spec is None:
        return False
    items = spec.get("list") or ([spec] if "a" in spec else [])
    return any(a["a"] == "auth" for a in items)


def _n_adapters(spec):
    if spec is None:
        return 0
    if "list" in spec:
        return len(spec["list"])
    if "tuple" in spec:
        return len(spec["tuple"])
    return 1


def _has_prefix(spec):
    if spec is None:
        return False
    items = spec.get("list") or spec.get("tuple") or ([spec] if "a" in spec else [])
    return any(a["a"] == "prefix" for a in items)


def gen_request(rng, k, node, nid, fault_rate, kinds):
    op = {"op": "req", "k": k, "node": nid, "verb": rng.choice(VERBS)}
    if node.is_mc:
        op["method_name"] = rng.choice(sorted(node.methods))
        chain_has_prefix = True
    else:
        chain_has_prefix = node.has_prefix
    paths = ["/a", "/b/c", "/", "/q%20x", "/a.b/c-d_e", "/a//b", "/proxy/http://other.test/x", "/b/../c/./d", "/\u00fc/x y", ""]
    if not chain_has_prefix and rng.random() < 0.15:
        paths = ["noslash", "x/y"]
    op["path"] = rng.choice(paths)
    op["params"] = rng.choice([None, None, {}, {"a": "1"}, {"q": "x y&z=1", "u": "ü"},
                               {"pairs": [["a", "1"], ["a", "2"]]}, {"n": 5, "b": True},
                               {"e": "", "none": None, "slash": "a/b?c#d", "plus": "1+1=2", "pct": "100%"},
                               {"pairs": []}, {"k" + str(i): "v" * 40 for i in range(12)}])
    op["data"] = rng.choice([None, None, {"bytes": "raw\u0000ÿ"}, "str ü", "", {"k": [1, 2, {"z": None}]},
                             [1, "a"], 0, {}, {"arg": 42}, {"bytes": ""}, False, [], 1.5, "x" * 3000,
                             {"nested": {"deep": [{"a": [1, [2, [3, {"ü": "ü"}]]]}]}}, "{\"already\": \"json\"}"])
    hs = [None, None, {}, {"X-A": "1"}, {"Content-Type": "text/plain"}, {"X-Request-ID": f"cid-{k}"},
          {"X-A": "2", "Accept": "*/*"}]
    if not node.auth:
        hs.append({"Authorization": "Custom abc"})
    else:
        # another spelling of the name: the authenticating layer's header is the one that goes out
        hs.append({rng.choice(["authorization", "AUTHORIZATION"]): "Custom low"})
    op["headers"] = rng.choice(hs)
    op["raw"] = rng.random() < 0.1
    if rng.random() < 0.2:
        # the caller keeps ONE object per purpose, updates it in place between requests and passes it again
        # (a paging loop: params["page"] += 1; a payload that grows): the very same object, other contents
        op["reuse"] = {what: rng.randrange(2) for what in ("data", "params", "headers") if rng.random() < 0.6}
    net = {"lat": rng.choice([0, 0, 1, 2, 4])}
    if kinds and rng.random() < fault_rate:
        kf = rng.choice(kinds)
        net["fault"] = kf
        if kf == "http_error":
            net["code"] = rng.choice([400, 401, 404, 500, 503])
            net["body"] = rng.choice(["", "{\"err\": 1}", "oops"])
    else:
        net["body"] = rng.choice(["", "{}", "{\"a\": [1, 2]}", "\"s\"", "3", "null", "[{\"x\": \"ü\"}]"])
    op["net"] = net
    if rng.random() < 0.25:
        # honoured only when the chain contains a failing adapter of the caller
        op["adfail"] = rng.choice(["pre", "post"])
    if rng.random() < 0.2:
        # the connection is described (str / repr / get_address) by the thread around its request:
        # descriptions are cached per connection object and must not touch the chain
        op["descr"] = rng.choice(["before", "after", "both"])
    return op


def generate(rng, tier):
    del _POOL[:]
    ops = []
    nodes = []
    clone_specs = {}
    derive_specs = {}
    k = [0]

    def uid():
        k[0] += 1
        return k[0]

    n_impl = 2 if rng.random() < 0.25 else 1
    for i in range(n_impl):
        form = rng.choice(["str", "str", "str_slash", "list", "dict", "tuple"])
        ids = not (i == 1 and rng.random() < 0.3)
        if form in ("list", "dict"):
            pass
        scheme = "https" if rng.random() < 0.2 else "http"
        host = 0 if (i == 1 and rng.random() < 0.3) else i       # (two independent connections to one address)
        ops.append({"op": "mk", "kind": "base", "node": len(nodes), "impl": i,
                    "addr": f"{scheme}://h{host}.test:80{host}0" + rng.choice(["", "", "", "/base", "/a/b"]),
                    "form": form, "ids": ids})
        if rng.random() < 0.25:
            # the application's own connection class: a subclass of HttpConn whose constructor calls super() and
            # then attaches the service's standard adapter with add_adapter()
            # (a response unwrapper: applying it twice shows)
            ops[-1]["appconn"] = {"a": "wrap", "tag": f"app{i}"}
        nodes.append(_GNode("base", False, i, born=len(ops)))
    long_run = rng.random() < 0.04
    threaded = rng.random() < (0.33 if not long_run else 0.1)
    nthreads = rng.randint(2, 3) if threaded else 1
    fault_free = rng.random() < 0.3
    fault_rate = 0.0 if fault_free else rng.choice([0.05, 0.15, 0.3])
    kinds = [x for x in hw.FAULT_KINDS if rng.random() < 0.6]
    n_ops = rng.randint(8, 70 if tier != "quick" else 30)
    if long_run:
        # a long life of one family of connections: hundreds of requests
        n_ops = rng.choice([40, 70, 130, 260, 520])
    bias_old = 0
    while len(ops) < n_ops:
        r = rng.random()
        conns = [i for i, n in enumerate(nodes) if not n.is_mc]
        mcs = [i for i, n in enumerate(nodes) if n.is_mc]
        if bias_old > 0:
            r = 1.0
            bias_old -= 1
        if r < 0.30 and len(nodes) < (12 if tier == "quick" else 20):
            # prefer recent connections as parents: deeper chains
            p = conns[-1 - min(len(conns) - 1, int(rng.expovariate(0.7)))] if rng.random() < 0.6 else rng.choice(conns)
            pn = nodes[p]
            kinds_ = ["http", "http", "http", "mcaller", "mcaller"]
            if not pn.auth:
                kinds_ += ["bauth", "client", "token"]
            kind = rng.choice(kinds_)
            nid = len(nodes)
            op = {"op": "mk", "kind": kind, "node": nid, "parent": p}
            g = _GNode(kind, pn.auth, pn.impl, has_prefix=pn.has_prefix, born=len(ops))
            g.depth = pn.depth + 1
            if kind == "http":
                prevd = derive_specs.get(p)
                if prevd is not None and rng.random() < 0.35:
                    op["adapters"] = _sibling_spec(rng, prevd, f"n{nid}")
                else:
                    op["adapters"] = _gen_adapters_arg(rng, f"n{nid}", allow_auth=not pn.auth)
                derive_specs[p] = op["adapters"]
                g.depth = pn.depth + _n_adapters(op["adapters"])
                g.auth = pn.auth or _has_auth(op["adapters"])
                g.has_prefix = pn.has_prefix or _has_prefix(op["adapters"])
            elif kind == "bauth":
                op["login"], op["password"] = rng.choice([("user", "pw"), ("uü", "p:w:"), ("a b", "")])
                g.auth = True
            elif kind == "client":
                op["client_name"], op["client_id"], op["client_secret"] = "cl", rng.choice(["cid", "c/id"]), "s3cr3t"
                g.auth = True
            elif kind == "token":
                op["token"] = rng.choice(["tok123", "a.b.c", "t|k:2", "50%&x", "two  words", "!{j}*"])
                op["token_descr"] = rng.choice([None, "descr"])
                g.auth = True
            else:
                g.is_mc = True
                pm = {}
                for c in ("cA", "cB", "cE"):
                    if rng.random() < 0.75:
                        pm[c] = "" if (c == "cE" and rng.random() < 0.7) else rng.choice(PREFIXES)
                if "cA" in pm and "cB" in pm and rng.random() < 0.3:
                    pm["cB"] = pm["cA"]
                methods = [{"name": "m0", "components": None}]
                for c in pm:
                    methods.append({"name": "m_" + c, "components": [c]})
                    if rng.random() < 0.3:
                        methods.append({"name": "mx_" + c, "components": ["absent", c]})
                if rng.random() < 0.35:
                    # the wrappers live in ONE mixin class of the application; the final caller classes only differ in
                    # the documented _HTTP_PREFIX_MAP hook (the service reached directly, through a gateway, ...)
                    op["mixin"] = True
                    methods = [dict(mm) for mm in MIXIN_METHODS]
                    if rng.random() < 0.4:
                        # the final class redefines one wrapper as a PLAIN method that calls the inherited one
                        # (post-processing, logging): the wrapper running underneath is still the inherited one
                        op["override"] = rng.choice(MIXIN_METHODS)["name"]
                if rng.random() < 0.4:
                    op["helper"] = True     # the wrappers share one private helper that calls get_conn()
                op["prefix_map"] = pm
                op["methods"] = methods
                g.methods = {m["name"] for m in methods
                             if m["components"] is None or sum(1 for c in m["components"] if c in pm) == 1}
            pn.dependents += 1
            nodes.append(g)
            ops.append(op)
            bias_old = rng.randint(1, 3)
        elif r < 0.42 and mcs and len(nodes) < 12:
            cloned_before = [x for x in mcs if x in clone_specs]
            s = rng.choice(cloned_before) if cloned_before and rng.random() < 0.5 else rng.choice(mcs)
            sn = nodes[s]
            nid = len(nodes)
            prev = clone_specs.get(s)
            if prev is not None and rng.random() < 0.5:
                spec = _sibling_spec(rng, prev, f"c{nid}")
            else:
                spec = _gen_adapters_arg(rng, f"c{nid}", allow_auth=not sn.auth)
            clone_specs[s] = spec
            g = _GNode("mcaller", sn.auth or _has_auth(spec), sn.impl, is_mc=True, born=len(ops))
            g.methods = set(sn.methods)
            g.depth = sn.depth + _n_adapters(spec)
            sn.dependents += 1
            nodes.append(g)
            ops.append({"op": "clone", "node": nid, "src": s, "adapters": spec})
            bias_old = rng.randint(1, 3)
        elif r < 0.48:
            leaves = [i for i in conns if nodes[i].dependents == 0 and nodes[i].kind != "base"]
            if not leaves:
                continue
            t = rng.choice(leaves)
            u = uid()
            ops.append({"op": "add_adapter", "node": t,
                        "adapter": {"a": "hdr", "name": f"X-Late-{u}", "value": f"l{u}"}})
            bias_old = rng.randint(1, 2)
        else:
            r2 = rng.random()
            if r2 < 0.4 and len(nodes) > 1:
                # prefer older nodes and siblings of what was just created
                nid = rng.randrange(max(1, len(nodes) - 1))
            elif r2 < 0.75:
                # prefer long chains
                w = [1 + 3 * n.depth for n in nodes]
                nid = rng.choices(range(len(nodes)), weights=w)[0]
            else:
                nid = rng.randrange(len(nodes))
            op = gen_request(rng, uid(), nodes[nid], nid, fault_rate, kinds)
            op["t"] = rng.randrange(nthreads)
            ops.append(op)
    est = sum(1 for o in ops if o["op"] == "req") * 450
    return {"ops": ops, "nthreads": nthreads, "policy": gen_policy(rng, est), "debug_log": rng.random() < 0.25}


def simplify(trace):
    ops = trace["ops"]
    for i, op in enumerate(ops):
        if op["op"] == "req":
            for key, plain in (("params", None), ("data", None), ("headers", None), ("raw", False)):
                if op.get(key) not in (None, False):
                    yield dict(trace, ops=ops[:i] + [dict(op, **{key: plain})] + ops[i + 1:])
            net = op.get("net") or {}
            if net.get("lat"):
                yield dict(trace, ops=ops[:i] + [dict(op, net=dict(net, lat=0))] + ops[i + 1:])
            if not net.get("fault") and net.get("body") not in ("", None):
                yield dict(trace, ops=ops[:i] + [dict(op, net=dict(net, body=""))] + ops[i + 1:])
        elif op["op"] in ("mk", "clone") and isinstance(op.get("adapters"), dict) and "list" in op["adapters"]:
            lst = op["adapters"]["list"]
            for j in range(len(lst)):
                yield dict(trace, ops=ops[:i] + [dict(op, adapters={"list": lst[:j] + lst[j + 1:]})] + ops[i + 1:])
    if trace.get("nthreads", 1) > 1:
        yield dict(trace, nthreads=1, schedule=[])
    if trace.get("debug_log"):
        yield dict(trace, debug_log=False)


# --------------------------------------------------------------------------
# execution

def _decode_data(d):
    if isinstance(d, dict) and set(d) == {"bytes"}:
        return d["bytes"].encode("latin-1")
    return d


def _decode_params(p):
    if isinstance(p, dict) and set(p) == {"pairs"}:
        return [tuple(x) for x in p["pairs"]]
    return p


class World:
    def __init__(self, log):
        self.log = log
        self.model = HttpModel()
        self.objs = {}          # nid -> real object
        self.mixin_cls = None
        self.kept_objects = {}  # (purpose, slot, type[, thread]) -> the caller's long-lived object
        self.classes = hw.make_adapter_classes()
        self.adapter_pool = {}
        self.held_lists = []    # (caller-owned list/tuple handed to the code, deep copy of its element ids)
        self.stats = {"derive": 0, "clone": 0, "add_adapter": 0, "req_ok": 0, "req_exc": 0,
                      "caller_objs_checked": 0, "old_node_requests": 0, "long_chains": 0,
                      "raw": 0, "clone_list": 0, "clone_single": 0, "mc_calls": 0}
        self.last_structural = -1
        self.born = {}
        self.opno = 0

    def sut(self, what, fn, *a, **kw):
        """call into repository code; an unexpected exception is a finding, not a harness error"""
        try:
            return fn(*a, **kw)
        except Violation:
            raise
        except Exception as e:
            raise Violation("construct", f"{what}-raised-{type(e).__name__}", f"{what}: {e!r}")

    def adapter_obj(self, a):
        """adapters marked with a pool key are the SAME object wherever they are used (a caller may
        hand one adapter instance to several connections)"""
        key = a.get("pool")
        if key is None:
            return hw.make_adapter(a, self.classes)
        if key not in self.adapter_pool:
            self.adapter_pool[key] = hw.make_adapter(a, self.classes)
        return self.adapter_pool[key]

    def mk_adapters_arg(self, spec):
        if spec is None:
            return None, []
        if "list" in spec:
            objs = [self.adapter_obj(a) for a in spec["list"]]
            lst = list(objs)
            self.held_lists.append((lst, list(objs)))
            return lst, objs
        if "tuple" in spec:
            objs = [hw.make_adapter(a, self.classes) for a in spec["tuple"]]
            return tuple(objs), objs
        o = self.adapter_obj(spec)
        return o, [o]

    def do_structural(self, op):
        ch = hw.conn_http
        mh = hw.mcaller_http
        m = self.model
        kind = op["op"]
        nid = op["node"]
        if kind == "mk":
            k2 = op["kind"]
            if k2 == "base":
                addr = op["addr"]
                form = op["form"]
                if op.get("appconn"):
                    std = hw.make_adapter(op["appconn"], self.classes)

                    class AppConn(ch.HttpConn):
                        """the application's connection class"""
                        def __init__(self, conn_data, *, adapters=None):
                            super().__init__(conn_data, adapters=adapters)
                            self.add_adapter(std)
                    conn_data = {"str": addr, "str_slash": addr + "/", "list": [addr, op["ids"]], "tuple": (addr, op["ids"])}.get(
                        form, {"address": addr, "_send_request_ids": op["ids"]})
                    o = self.sut("AppConn(conn_data)", AppConn, conn_data)
                    self.stats["app_connections"] = self.stats.get("app_connections", 0) + 1
                elif form == "str":
                    o = self.sut("HttpConn(address)", ch.HttpConn, addr)
                elif form == "str_slash":
                    o = self.sut("HttpConn(address/)", ch.HttpConn, addr + "/")
                elif form == "list":
                    o = self.sut("HttpConn([address, ids])", ch.HttpConn, [addr, op["ids"]])
                elif form == "tuple":
                    o = self.sut("HttpConn((address, ids))", ch.HttpConn, (addr, op["ids"]))
                else:
                    o = self.sut("HttpConn({address})", ch.HttpConn, {"address": addr, "_send_request_ids": op["ids"]})
                ids = op["ids"] if form in ("list", "tuple", "dict") else True
                m.mk_base(nid, op["impl"], addr, ids)
                if op.get("appconn"):
                    m.add_adapter(nid, adapter_entry(op["appconn"]))
            else:
                if op["parent"] not in self.objs or m.nodes[op["parent"]].is_mc:
                    return False
                parent = self.objs[op["parent"]]
                if k2 == "http":
                    own = adapters_entries(op.get("adapters"))
                    n_auth = sum(1 for e in own if e[0] == "auth")
                    if n_auth > 1 or (n_auth and m.nodes[op["parent"]].has_auth):
                        return False        # two authenticating layers: the code asserts, not generated
                    arg, _ = self.mk_adapters_arg(op.get("adapters"))
                    if arg is None and op["node"] % 2 == 0:
                        o = self.sut("HttpConn(parent)", ch.HttpConn, parent)
                    else:
                        o = self.sut("HttpConn(parent, adapters=)", ch.HttpConn, parent, adapters=arg)
                    m.mk_derived(nid, k2, op["parent"], adapters_entries(op.get("adapters")))
                elif k2 in ("bauth", "client", "token"):
                    if m.nodes[op["parent"]].has_auth:
                        return False
                    if k2 == "bauth":
                        o = self.sut("BAuthConn", ch.BAuthConn, parent, op["login"], op["password"])
                    elif k2 == "client":
                        o = self.sut("ClientAuthConn", ch.ClientAuthConn, parent, op["client_name"],
                                     op["client_id"], op["client_secret"])
                    else:
                        o = self.sut("TokenAuthConn", ch.TokenAuthConn, parent, op["token"], op.get("token_descr"))
                    m.mk_derived(nid, k2, op["parent"], [auth_entry(k2, op)])
                elif k2 == "mcaller":
                    cls = self.make_mc_class(op)
                    o = self.sut("MCallerHttp(conn)", cls, parent)
                    m.mk_mcaller(nid, op["parent"], op["prefix_map"], op["methods"])
                else:
                    raise ValueError(k2)
                self.stats["derive"] += 1
            self.objs[nid] = o
        elif kind == "clone":
            if op["src"] not in self.objs or not m.nodes[op["src"]].is_mc:
                return False
            src = self.objs[op["src"]]
            own = adapters_entries(op.get("adapters"))
            n_auth = sum(1 for e in own if e[0] == "auth")
            if n_auth > 1 or (n_auth and m.nodes[op["src"]].has_auth):
                return False
            arg, _ = self.mk_adapters_arg(op.get("adapters"))
            if arg is None and nid % 2 == 0:
                o = self.sut("clone()", src.clone)
            else:
                o = self.sut(f"clone({type(arg).__name__})", src.clone, arg)
            m.mk_clone(nid, op["src"], adapters_entries(op.get("adapters")))
            self.objs[nid] = o
            self.stats["clone"] += 1
            if isinstance(arg, (list, tuple)):
                self.stats["clone_list"] += 1
            elif arg is not None:
                self.stats["clone_single"] += 1
        elif kind == "add_adapter":
            if nid not in self.objs:
                return False
            mn = m.nodes[nid]
            if mn.is_mc or mn.dependents or mn.kind == "base":
                return False
            a = hw.make_adapter(op["adapter"], self.classes)
            self.sut("add_adapter", self.objs[nid].add_adapter, a)
            m.add_adapter(nid, adapter_entry(op["adapter"]))
            self.stats["add_adapter"] += 1
        else:
            raise ValueError(kind)
        self.last_structural = self.opno
        self.born.setdefault(nid, self.opno)
        self.check_held_lists()
        return True

    def make_mc_class(self, op):
        mh = hw.mcaller_http
        ns = {"_HTTP_PREFIX_MAP": dict(op["prefix_map"]), "__doc__": "simulated method caller"}

        via_helper = bool(op.get("helper"))

        def _issue(self, verb, path, kw):
            # the application's shared private helper (paging, default params): it is the one who asks for the
            # connection; the library finds the wrapper further up the stack
            return getattr(self.get_conn(), verb)(path, **kw)
        ns["_issue"] = _issue

        def mk(name, comps):
            def method(self, verb, path, kw):
                """issue one request"""
                if via_helper:
                    return self._issue(verb, path, kw)
                return getattr(self.get_conn(), verb)(path, **kw)
            method.__name__ = name
            method.__qualname__ = name
            method.__code__ = method.__code__.replace(co_name=name)
            return mh.method_http(None, comps)(method)
        if op.get("mixin"):
            if self.mixin_cls is None:
                mns = {"_HTTP_PREFIX_MAP": {}, "__doc__": "the application's wrappers, shared by its caller classes"}
                for mm in op["methods"]:
                    mns[mm["name"]] = mk(mm["name"], mm["components"])
                self.mixin_cls = self.sut("class(MCallerHttp) mixin", type, "SimWrappers", (mh.MCallerHttp,), mns)
                self.stats["mixin_classes"] = 1
            self.stats["mixin_callers"] = self.stats.get("mixin_callers", 0) + 1
            if op.get("override"):
                inherited = getattr(self.mixin_cls, op["override"])

                def override(self, verb, path, kw):
                    """the application's refinement of an inherited wrapper"""
                    return inherited(self, verb, path, kw)
                override.__name__ = override.__qualname__ = op["override"]
                override.__code__ = override.__code__.replace(co_name=op["override"])
                ns[op["override"]] = override
                self.stats["plain_overrides"] = self.stats.get("plain_overrides", 0) + 1
            return self.sut("class(mixin)", type, f"SimCaller{op['node']}", (self.mixin_cls,), ns)
        for mm in op["methods"]:
            ns[mm["name"]] = mk(mm["name"], mm["components"])
        return self.sut("class(MCallerHttp)", type, f"SimCaller{op['node']}", (mh.MCallerHttp,), ns)

    def check_held_lists(self):
        for lst, orig in self.held_lists:
            if len(lst) != len(orig) or any(a is not b for a, b in zip(lst, orig)):
                raise Violation("side-effect", "caller-adapter-list-modified",
                                f"a list of adapters passed by the caller changed: now {len(lst)} items, was {len(orig)}")

    # ---- requests
    def prepare_request(self, op):
        """returns None when the op is not executable in this (shrunk) history"""
        nid = op["node"]
        if nid not in self.objs:
            return None
        mn = self.model.nodes[nid]
        if mn.is_mc and op.get("method_name") not in mn.methods:
            return None
        if not mn.is_mc and op.get("method_name"):
            return None
        req = {"path": op["path"], "verb": op["verb"], "params": _decode_params(op.get("params")),
               "data": _decode_data(op.get("data")), "headers": op.get("headers"),
               "method_name": op.get("method_name") if mn.is_mc else None}
        return req

    def issue(self, op, req):
        """performs the call; returns outcome tuple.  Runs in a simulated thread or the main thread."""
        obj = self.objs[op["node"]]
        headers = self.caller_object("headers", op, copy.deepcopy(req["headers"]))
        params = self.caller_object("params", op, copy.deepcopy(req["params"]))
        data = self.caller_object("data", op, copy.deepcopy(req["data"]))
        kw = {}
        if headers is not None or op["k"] % 3 == 0:
            kw["headers"] = headers
        if params is not None or op["k"] % 3 == 1:
            kw["params"] = params
        if data is not None or op["k"] % 3 == 2:
            kw["data"] = data
        if op.get("raw"):
            kw["raw_response"] = True
        d = op.get("descr")
        if d in ("before", "both"):
            self.describe(obj, req)
        try:
            if req["method_name"]:
                r = getattr(obj, req["method_name"])(op["verb"], op["path"], kw)
            else:
                r = getattr(obj, op["verb"])(op["path"], **kw)
            out = ("ok", r)
        except Exception as e:
            out = ("exc", e)
        if d in ("after", "both"):
            self.describe(obj, req)
        if op.get("reuse"):
            # the caller's long-lived objects go on living: what they hold right after the call is what counts
            return out, (copy.deepcopy(headers), copy.deepcopy(params), copy.deepcopy(data))
        return out, (headers, params, data)

    def caller_object(self, what, op, fresh):
        """the object the caller passes: a fresh one, or its long-lived one updated in place to the same contents"""
        slot = (op.get("reuse") or {}).get(what)
        if slot is None or type(fresh) not in (dict, list):
            return fresh
        # (one per caller thread: a thread issues its requests one after the other)
        kept = self.kept_objects.setdefault((what, slot, type(fresh).__name__, op.get("t", 0)), type(fresh)())
        kept.clear()
        if isinstance(kept, dict):
            kept.update(fresh)
        else:
            kept.extend(fresh)
        self.stats["reused_caller_objects"] = self.stats.get("reused_caller_objects", 0) + 1
        return kept

    def describe(self, obj, req):
        """str/repr/get_address of the connection (of a method caller: of its connection).  What they return
        is not part of C17; that they leave the chains alone is (the following requests are checked)."""
        try:
            c = obj.http_conn if req["method_name"] else obj
            str(c)
            repr(c)
            c.get_address()
            self.stats["described"] = self.stats.get("described", 0) + 1
        except Exception:
            self.stats["describe_raised"] = self.stats.get("describe_raised", 0) + 1


def _plain(x):
    """make a returned value comparable / loggable: fake responses become their token"""
    if isinstance(x, hw.FakeResponse):
        return {"__response__": x.token}
    if isinstance(x, dict):
        return {k: _plain(v) for k, v in x.items()}
    if isinstance(x, list):
        return [_plain(v) for v in x]
    return x


def check_request(world, op, req, exp, outcome, after):
    net = op.get("net") or {}
    fault = net.get("fault")
    seen = op.get("_seen", [])
    k = op["k"]
    adfail = op.get("adfail") if exp.get("can_fail") else None
    if adfail == "pre":
        # the caller's own adapter raised before the request was sent: nothing goes out, the caller
        # gets the exception, its objects are untouched
        world.stats["adapter_failed_pre"] = world.stats.get("adapter_failed_pre", 0) + 1
        if seen:
            raise Violation("fault", "request-sent-after-adapter-failure", f"op {k}: {len(seen)} request(s) reached the transport")
        if outcome[0] != "exc":
            raise Violation("fault", "adapter-failure-swallowed", f"op {k}: returned {_plain(outcome[1])!r}")
        h0, p0, d0 = after
        if h0 != req["headers"] or p0 != req["params"] or d0 != req["data"]:
            raise Violation("side-effect", "caller-object-modified", f"op {k} (failed in an adapter)")
        return
    if not seen and outcome[0] == "exc":
        raise Violation("request", "failed-before-send",
                        f"op {k} never reached the transport: {outcome[1]!r}")
    if len(seen) != 1:
        raise Violation("request", "request-count", f"op {k} reached the transport {len(seen)} times")
    rec = seen[0]
    if rec["url"] != exp["url"]:
        raise Violation("request", "url", f"op {k}: sent {rec['url']!r}, model {exp['url']!r}")
    if rec["method"] != exp["method"]:
        raise Violation("request", "method", f"op {k}: sent {rec['method']}, model {exp['method']}")
    if rec["data"] != exp["body"]:
        raise Violation("request", "body", f"op {k}: sent {rec['data']!r}, model {exp['body']!r}")
    got = dict(rec["headers"])
    rid = got.pop("X-request-id", None)
    want = dict(exp["headers"])
    want_rid = want.pop("X-request-id", None)
    if want_rid is not None:
        if rid != want_rid:
            raise Violation("request", "caller-request-id", f"op {k}: sent {rid!r}, caller gave {want_rid!r}")
    elif exp["ids"] and rid is None:
        raise Violation("request", "missing-request-id", f"op {k}")
    elif not exp["ids"] and rid is not None:
        raise Violation("request", "id-when-disabled", f"op {k}: {rid!r}")
    if got != want:
        extra = {a: b for a, b in got.items() if want.get(a) != b}
        missing = {a: b for a, b in want.items() if got.get(a) != b}
        klass = "headers"
        if "Authorization" in extra or "Authorization" in missing:
            klass = "authorization"
        elif "Content-type" in extra or "Content-type" in missing:
            klass = "content-type"
        raise Violation("request", klass, f"op {k}: unexpected/changed {extra}, missing/expected {missing}")
    # caller-owned objects
    h0, p0, d0 = after
    world.stats["caller_objs_checked"] += 1
    if h0 != req["headers"] or p0 != req["params"] or d0 != req["data"]:
        raise Violation("side-effect", "caller-object-modified",
                        f"op {k}: headers {req['headers']!r}->{h0!r} params {req['params']!r}->{p0!r} data {req['data']!r}->{d0!r}")
    # result
    raw = bool(op.get("raw"))
    if adfail == "post":
        world.stats["adapter_failed_post"] = world.stats.get("adapter_failed_post", 0) + 1
    must_fail = adfail == "post" or fault in hw.HARD_FAULTS or (
        not raw and fault in ("not_utf8", "not_json"))
    if must_fail:
        if outcome[0] != "exc":
            raise Violation("result", "fault-swallowed",
                            f"op {k}: transport fault {fault} but the call returned {_plain(outcome[1])!r}")
        world.stats["req_exc"] += 1
        return
    if outcome[0] == "exc":
        raise Violation("result", "unexpected-exception", f"op {k}: {outcome[1]!r}")
    world.stats["req_ok"] += 1
    if raw:
        world.stats["raw"] += 1
        base = {"__response__": rec["seq"]}
    else:
        if fault == "empty_body":
            text = ""
        else:
            text = net.get("body", "")
        base = json.loads(text) if text else ""
    want_ret = HttpModel.expect_result(exp, base)
    got_ret = _plain(outcome[1])
    if got_ret != want_ret:
        raise Violation("result", "value", f"op {k}: returned {got_ret!r}, model {want_ret!r}")


def check_ids(world, tr):
    """sequence numbers per underlying connection stay gap-free whatever failed"""
    by_impl = {}
    for rec in tr.requests:
        op = rec.get("_op")
        if op is None:
            continue
        by_impl.setdefault(world.model.nodes[op["node"]].impl, []).append((op, rec))
    for impl, lst in sorted(by_impl.items()):
        if not world.model.impls[impl]["ids"]:
            continue
        nums = []
        for op, rec in lst:
            if (op.get("headers") or {}).get("X-Request-ID") is not None:
                continue
            rid = hdr(rec, "X-Request-ID")
            try:
                nums.append(int(str(rid).rsplit("-", 1)[1]))
            except (ValueError, IndexError):
                raise Violation("reqid", "malformed-id", f"op {op['k']}: {rid!r}")
        if sorted(nums) != list(range(len(nums))):
            raise Violation("reqid", "sequence-gap-or-repeat", f"impl {impl}: {sorted(nums)}")


def execute(trace, rng):
    log = EventLog()
    shim, tr = hw.install_seams(trace.get("seed", 0) ^ 0xC17, log)
    hw.set_debug_logging(bool(trace.get("debug_log")))
    world = World(log)
    ops = [dict(op) for op in trace["ops"]]
    nthreads = trace.get("nthreads", 1)
    replay = rng is None
    schedule = trace.get("schedule") if replay else None
    recorded = []
    sim_stats = {}
    total_steps = 0
    try:
        i = 0
        seg = 0
        while i < len(ops):
            op = ops[i]
            world.opno = i
            if op["op"] != "req":
                ok = world.do_structural(op)
                log.add("struct", op["op"], op.get("node"), ok)
                i += 1
                continue
            # maximal segment of consecutive requests
            j = i
            while j < len(ops) and ops[j]["op"] == "req":
                j += 1
            segment = []
            for op2 in ops[i:j]:
                req = world.prepare_request(op2)
                if req is None:
                    log.add("skip", op2["k"])
                    continue
                exp = world.model.expect(op2["node"], req)
                segment.append((op2, req, exp))
                born = world.born.get(op2["node"], 0)
                if born < world.last_structural:
                    world.stats["old_node_requests"] += 1
                if len(world.model.chain_for_request(op2["node"], req["method_name"])) >= 2:
                    world.stats["long_chains"] += 1
                if req["method_name"]:
                    world.stats["mc_calls"] += 1
            results = {}
            if nthreads <= 1 or len(segment) <= 1:
                for op2, req, exp in segment:
                    tr.cur_op_fallback = op2
                    results[op2["k"]] = world.issue(op2, req)
                    tr.cur_op_fallback = None
            else:
                base_idx = seg * 8
                sched_seg = None
                if replay:
                    sched_seg = [[r[0] - base_idx if r[0] >= 0 else -1, r[1], r[2] - base_idx]
                                 for r in (schedule or []) if (r[0] // 8 == seg if r[0] >= 0 else r[3:] == [seg])]
                sim = ThreadSim(policy_spec=trace.get("policy"), rng=rng, schedule=sched_seg, log=log)
                tr.sim = sim
                per = [[] for _ in range(nthreads)]
                for item in segment:
                    per[item[0].get("t", 0) % nthreads].append(item)

                def body(items):
                    def run(t):
                        for op2, req, exp in items:
                            t.cur_op = op2
                            results[op2["k"]] = world.issue(op2, req)
                            t.cur_op = None
                    return run
                for items in per:
                    sim.spawn(body(items))
                try:
                    sim.run()
                finally:
                    tr.sim = None
                    for kk, v in sim.stats.items():
                        sim_stats[kk] = sim_stats.get(kk, 0) + v
                    total_steps += sim.total_steps
                    if not replay:
                        for r in sim.recorded:
                            if r[0] >= 0:
                                recorded.append([r[0] + base_idx, r[1], r[2] + base_idx])
                            else:
                                recorded.append([-1, r[1], r[2] + base_idx, seg])
            for op2, req, exp in segment:
                for rec in op2.get("_seen", []):
                    rec["_op"] = op2
                outcome, after = results[op2["k"]]
                log.add("ret", op2["k"], outcome[0],
                        type(outcome[1]).__name__ if outcome[0] == "exc" else _plain(outcome[1]))
                check_request(world, op2, req, exp, outcome, after)
            world.check_held_lists()
            seg += 1
            i = j
        check_ids(world, tr)
        status = {"status": OK}
    except Violation as v:
        status = violation_result(v)
    sched = recorded if not replay else (schedule or [])
    log.add("sched", sched)
    st = dict(world.stats)
    for kk, v in sim_stats.items():
        st["sim." + kk] = v
    st["threaded_runs"] = 1 if nthreads > 1 else 0
    st["max_in_flight"] = tr.max_in_flight
    st["overlap_runs"] = 1 if tr.max_in_flight > 1 else 0
    st["requests"] = len(tr.requests)
    for kk, v in tr.fired.items():
        st["fault." + kk] = v
    st["fault.timed_wait_expired"] = sim_stats.get("timed_wait_expired", 0)
    nontrivial = bool(world.stats["old_node_requests"] and world.stats["long_chains"])
    h = hashlib.blake2b(json.dumps([trace["ops"], sched], sort_keys=True, default=str).encode(),
                        digest_size=8).hexdigest()
    status.update({"digest": log.digest(), "stats": st, "nontrivial": nontrivial, "case": h,
                   "schedule": sched, "sim_steps": total_steps})
    return status
