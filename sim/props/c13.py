"""C13 - a table's reported format string reproduces the table.

One table per run lives through a seeded history (renderings, line tasks
stepped/drained/abandoned, format assignments, column removals, limit
changes); at scheduler-chosen moments - fresh, being printed, printed,
re-formatted - the round-trip probe feeds str(table.fmt) to the setter and to
the constructor and compares renderings; empty / separators-only formats must
change nothing, also for a rendering in flight."""

import gc
import hashlib
import json

from .. import renderworld as rw
from ..core import EventLog, Violation, OK, violation_result
from ..models import sgr
from .c10 import gen_enum, NAMES_S, first_diff

ID = "C13"
ENGINE = "renderworld"
SHRINK_LISTS = ("ops",)
WATCH_FILES = ("ak/ppobj.py", "ak/color.py")
REQUIRED_PROBES = ("probes", "probe_fresh", "probe_printed", "probe_inflight", "probe_ranged_printed",
                   "noop_assign_inflight", "ctor_roundtrips", "setter_roundtrips", "tasks_completed", "siblings_from_str")

REAL_VS_STUB = {'real': ['ak.color, ak.ppobj, ak.hdoc, ak.ghist (report building and formatting), ak.mcaller_http (help of method callers)'], 'stub': ['id() as seen by ak.ppobj/ak.color/ak.hdoc/ak.ghist -> simulated allocator with adversarial re-use', 'cyclic GC timing -> gc.disable() + scheduled gc.collect()', 'the git repository behind ProjectRepo -> deterministic in-memory fake (sim/fakegit.py)', 'process-global state -> one fresh forked process per run, one pristine forked process per reference rendering', 'ssl.SSLContext.load_default_certs -> no-op; logging disabled']}

ASSUMPTIONS = ['tables use explicit fields or namedtuple records (value paths are not serialised by design)', 'records are never mutated during a run', 'only immediate round trips are compared: a saved string applied after other changes must be accepted, its rendering is not compared', 'in-flight renderings overlapped by a real format change or column removal are excluded']

RULE = ("each run = one table (2-5 fields, 0-12 records, shared enum field type, titles, header/footer, explicit fields or "
        "namedtuples) with a generated format (fixed and ranged widths, /modifier, break-by !, repeated fields, hidden "
        ":-1 columns, limits n:m, *) living through 10-30 seeded ops: render, start/step/drain/abandon line tasks, "
        "fmt = str(fmt) | '' | ';' | ';;' | another generated format | limits only | *, remove_columns, fmt_obj "
        "constructor, and the round-trip probe. Non-trivial iff a probe ran on a table whose ranged widths were already "
        "negotiated, or while a line task was in flight; distinct = digest of the trace.")

FIELDS = ["id", "name", "status", "level", "flag", "speed"]
UNIT_MODIFIERS = ["km/h", "m/s", "raw", "kn"]      # the format modifiers of the application's own field type of "speed"
ODD_FIELDS = ["my field", "Ünï", "x2", "_u", "a.b",
              # names that Unicode normalisation would change (micro sign, ohm sign, superscript, combining accent,
              # full-width letters): a name is whatever the caller wrote
              "time_\u00b5s", "R_\u2126", "m\u00b2", "e\u0301x", "\uff49\uff44",
              # names with characters that mean something elsewhere (shell wildcards, brackets)
              "count(*)", "active?", "vals[0]", "a*",
              # names that end like the width hint a printed table adds to a column description
              "count(1)", "sum(12)", "n (3)"]


def init_zygote():
    rw.init_zygote()


# --------------------------------------------------------------------------

def gen_fmt(rng, fields, has_enum, allow_hidden=True):
    if rng.random() < 0.05:
        cols = "*"
    else:
        n = rng.randint(1, min(5, len(fields) + 1))
        names = [rng.choice(fields) for _ in range(n)]
        parts = []
        visible = 0
        for f in names:
            c = f
            mod = None
            if f == "status" and has_enum and rng.random() < 0.7:
                mod = rng.choice(["val", "name", "full"])
                c += "/" + mod
            elif f == "speed" and rng.random() < 0.6:
                mod = rng.choice(UNIT_MODIFIERS)        # free-form unit texts, some with a '/' of their own
                c += "/" + mod
            if rng.random() < 0.25:
                c += "!"
                if rng.random() < 0.12:
                    # other spellings of the same description, which a more tolerant parser may come to accept
                    # (rejected today: the run is then skipped as an input matter)
                    c = rng.choice([f"{f}!/{mod}" if mod else f"{f} !", f"{f} ! " if not mod else f"{f} / {mod} !"])
            r = rng.random()
            if r < 0.25:
                c += f":{rng.randint(0, 14)}"
                visible += 1
            elif r < 0.65:
                a = rng.randint(0, 8)
                b = a + rng.randint(0, 14)
                if rng.random() < 0.06:
                    a, b = b, a          # a reversed range: accepted today (the column gets the second bound)
                c += f":{a}-{b}"
                visible += 1
            elif r < 0.72 and allow_hidden and visible:
                c += ":-1"
            else:
                visible += 1
            if rng.random() < 0.15:
                c = " " + c
            parts.append(c)
        if not visible:
            parts.append(fields[0])
        cols = ",".join(parts)
    if cols != "*" and rng.random() < 0.15:
        # break lines together with limits that hide records: which records are visible (and so the
        # negotiated widths) depends on the break-by columns
        if "!" not in cols:
            parts = cols.split(",")
            i = rng.randrange(len(parts))
            head, sep, tail = parts[i].partition(":")
            parts[i] = head + "!" + sep + tail
            cols = ",".join(parts)
        return cols + f";{rng.randint(1, 2)}:{rng.randint(0, 2)}"
    r = rng.random()
    if r < 0.3:
        return cols + f";{rng.randint(0, 4)}:{rng.randint(0, 4)}"
    if r < 0.36:
        return cols + ";*"
    if r < 0.42:
        return cols + ";"
    return cols


def generate(rng, tier):
    enums = [gen_enum(rng)]
    if rng.random() < 0.12:
        # the application's own enum type: columns without a modifier show names only
        enums[0]["user_default"] = "name"
    k = rng.randint(2, 5)
    fields = rng.sample(FIELDS, k)
    wide = rng.random() < 0.04
    if wide:
        # a wide table: the format string it reports is several hundred characters long
        k = rng.choice([18, 24, 40])
        fields = [f"w{i:02}" for i in range(k)]
    odd = rng.random() < 0.2
    if odd:
        # an unusual but legal field name (holds plain strings)
        fields[rng.randrange(k)] = rng.choice(ODD_FIELDS)
    if rng.random() < 0.6 and "status" not in fields:
        fields[rng.randrange(k)] = "status"
    if rng.random() < 0.08:
        # two fields whose names differ in case only (field names are case sensitive)
        i, j = rng.sample(range(k), 2)
        if fields[i] != "status" and fields[j] != "status":
            fields[j] = rng.choice([fields[i].upper(), fields[i].capitalize()])
            odd = True
    has_enum = "status" in fields
    recs = []
    sizes = [0, 1, 2, 3, 4, 6, 9, 12] + ([25, 55, 70] if tier != "quick" else [])
    if rng.random() < 0.04:
        sizes = [52, 60, 75]          # beyond the package's (unused) default limits 30:20
    for i in range(rng.choice(sizes)):
        rec = []
        for f in fields:
            if f == "id":
                rec.append(i + 1)
            elif f == "name":
                rec.append(rng.choice(NAMES_S))
            elif f == "status":
                rec.append(rng.choice([0, 1, 2, 3, 10, 17, 200, 999, None, "1", "10", "None", "17", 2.0, "2.0", 0.0, -0.0]))   # (look-alikes of other types too)
            elif f == "level":
                rec.append(rng.choice([7, 10, 17, 3.5, -2, None, 123456789, "7", "None", "3.5", 7.0]))
            elif f == "flag":
                rec.append(rng.choice([True, False, None, True, "True", "None", 1]))
            elif f == "speed":
                rec.append(rng.choice([0, 5, 12.5, 88, 130, None, 299792]))
            else:
                rec.append(rng.choice(NAMES_S))
        recs.append(rec)
    struct = None
    r_struct = rng.random()
    if r_struct < 0.05 and not odd:
        # the record structure is not described at all: plain tuples, the package names the fields col_1 ...
        # (no records: its placeholder column)
        struct = "nofields"
        fields = [f"col_{i + 1}" for i in range(k)] if recs else [DUMMY_FIELD]
        has_enum = False
    elif r_struct < 0.12:
        # ... described by RecordField objects (value paths into dict records, or positions)
        struct = rng.choice(["recfields", "recfields_pos"])
    elif r_struct < 0.17:
        # ... or taken from an enhanced format ("name<-path") the table is created with
        struct = "enhanced"
    table = {"kind": "table", "fields": fields, "records": recs}
    if struct:
        table["struct"] = struct
    if has_enum:
        table["types"] = {"status": 0}
    if rng.random() < (0.3 if wide else 0.7):
        table["fmt"] = gen_fmt(rng, fields, has_enum)
    if rng.random() < 0.3:
        table["header"] = "Title of the table"
    if rng.random() < 0.3:
        table["footer"] = rng.choice(["", "custom footer"])
    if rng.random() < 0.25:
        table["titles"] = {rng.choice(fields): rng.choice(["Two\nLines", "T", "A longer title", ["Listed", "title"], ["One"], ["Year", 2024], [None]])}
    if rng.random() < 0.2:
        table["limits"] = [rng.randint(0, 3), rng.randint(0, 3)]
        if rng.random() < 0.3:
            # "a tuple of two optional integers": one side (or both) left open
            table["limits"][rng.randrange(2)] = None
            if rng.random() < 0.2:
                table["limits"] = [None, None]
    if rng.random() < 0.2:
        plain = [f for f in fields if f != "status"]
        if plain:
            table["wtypes"] = {rng.choice(plain): [rng.randint(0, 4), rng.randint(4, 9)] + (["center"] if rng.random() < 0.4 else [])}
    if recs and not struct and rng.random() < 0.06:
        # fault: one record is malformed (too short) when the table is printed for the first time; the caller
        # catches the error, repairs the record in its list and goes on with the same table
        table["broken_first"] = rng.randrange(len(recs))
    if struct == "nofields":
        for key in ("titles", "wtypes"):
            table.pop(key, None)
    if struct:
        pass
    elif rng.random() < 0.25 and recs and not odd and "broken_first" not in table:
        table["nt"] = True
    elif rng.random() < 0.2:
        # the names arrive as a tuple, or as members of the caller's (str, Enum) class
        table["fields_as"] = rng.choice(["tuple", "strenum"])
    ops = []
    live = set()
    long_run = rng.random() < 0.04
    n_ops = rng.randint(10, 30 if tier == "quick" else 60)
    if long_run:
        # a long life: hundreds of assignments of different formats, earlier ones coming back
        n_ops = rng.choice([80, 150, 300, 500])
    for _ in range(n_ops):
        r = rng.random()
        if long_run and r < 0.45:
            r = 0.76 + rng.random() * 0.13       # formats: new / limits / star / saved, and save_fmt
        if r < 0.16:
            ops.append({"op": "render", "no_color": rng.random() < 0.3, "how": rng.choice(["str", "lines"])})
        elif r < 0.30:
            ops.append({"op": "probe", "no_color": rng.random() < 0.25})
        elif r < 0.40:
            t = rng.randrange(3)
            ops.append({"op": "task_start", "task": t, "no_color": rng.random() < 0.2, "first": rng.random() < 0.5})
            live.add(t)
        elif r < 0.55 and live:
            ops.append({"op": "task_step", "task": rng.choice(sorted(live)), "n": rng.randint(1, 5)})
        elif r < 0.62 and live:
            t = rng.choice(sorted(live))
            ops.append({"op": rng.choice(["task_drain", "task_drain", "task_abandon"]), "task": t})
            live.discard(t)
        elif r < 0.76:
            ops.append({"op": "set_fmt", "which": rng.choice(["current", "current", "empty", "semi", "semi2", "none_cols"]),
                        "defer": rng.random() < 0.45, "via_prop": rng.random() < 0.5})
        elif r < 0.86:
            which = rng.choice(["new", "new", "limits", "star", "saved"])
            op = {"op": "set_fmt", "which": which}
            if which == "new":
                op["fmt"] = gen_fmt(rng, fields, has_enum)
                if "speed" in fields and rng.random() < 0.25:
                    # a plain, certainly valid description with one of the application's unit modifiers
                    op["fmt"] = rng.choice(["speed/", "id,speed/", "speed/raw,speed/"]) + rng.choice(UNIT_MODIFIERS[:2])
                    op["canon"] = True
            elif which == "limits":
                op["fmt"] = f";{rng.randint(0, 4)}:{rng.randint(0, 4)}"
                if rng.random() < 0.4:
                    # the same through the format object of the table: table.fmt.set_limits((n, m))
                    op["via_fmt_obj"] = True
            ops.append(op)
        elif r < 0.89:
            ops.append({"op": "save_fmt"})
        elif r < 0.955:
            ops.append({"op": "remove_columns", "names": rng.sample(fields, min(len(fields), rng.randint(1, 2))),
                        "via_fmt_obj": rng.random() < 0.4, "breaks": rng.random() < 0.4})
        elif r < 0.962:
            ops.append({"op": "set_fmt_invalid", "fmt": rng.choice([
                "nosuchfield", fields[0] + ":x", fields[0] + ":1-2-3", fields[0] + ":1:2", ";1", ";a:b", ";1:2:3",
                "a;b;c;d", fields[0] + ",nosuchfield:3", fields[0] + "/nosuchmodifier",
                # separators of another kind only: not a format (today), and certainly not "no columns"
                ",", ",,", " , ", ",;", " , ;;", fields[0] + ",", "," + fields[0]])})
        elif r < 0.967 and recs and "broken_first" not in table and table.get("footer") is not None:
            # (only tables with a footer of their own: the default one, "Total N records", is made when the table
            # is created and is not a matter of the format)
            # the application refreshes its records list in place (rows[:] = new result) and re-applies the configured
            # layout - an empty format by default: the table shows the new records like a fresh table would
            ops.append({"op": "refresh", "keep": rng.choice(["half", "odd", "all", "first"]),
                        "which": rng.choice(["empty", "empty", "semi", "semi2", "none_cols"])})
        elif r < 0.9685 and table.get("wtypes"):
            # the application changes a setting of its long-lived field type object ("wide mode") while tables
            # that use it are on display
            ops.append({"op": "ft_change", "max_width": rng.choice([3, 12, 40]), "min_width": rng.choice([None, 0, 2])})
        elif r < 0.97:
            ops.append({"op": "fmt_obj_ctor"})
            if struct in ("recfields", "recfields_pos") and rng.random() < 0.7:
                # the application builds another report from its one list of RecordField objects, with titles of
                # its own: an unrelated table, nothing to do with the ones that exist
                ops.append({"op": "other_report", "titles": {f: rng.choice(["A much longer, verbose title", "T", "Two\nlines"])
                                                            for f in rng.sample(fields, rng.randint(1, len(fields)))}})
        else:
            # a sibling table built from this table's format object, showing other records
            ops.append({"op": "sibling", "keep": rng.choice(["half", "odd", "all", "first"]),
                        "limits": rng.choice([None, None, [1, 1], [0, 2], [2, 0], [1, 0], [2, None], [None, 1]]),
                        "via_str": rng.random() < 0.45})
    ntbl = 1 + sum(1 for o in ops if o["op"] == "sibling")
    if ntbl > 1:
        seen = 1
        for o in ops:
            if o["op"] == "sibling":
                o["tbl"] = rng.randrange(seen)
                seen += 1
            elif not o["op"].startswith("task_") or o["op"] == "task_start":
                o["tbl"] = rng.randrange(seen)
    for t in sorted(live):
        ops.append({"op": "task_drain", "task": t})
    ops.append({"op": "probe", "no_color": False})
    return {"enums": enums, "table": table, "ops": ops}


def simplify(trace):
    from .c10 import _simplify_table
    for cand in _simplify_table(trace["table"]):
        yield dict(trace, table=cand)
    for i, op in enumerate(trace["ops"]):
        for key, plain in (("no_color", False), ("defer", False), ("first", False)):
            if op.get(key):
                yield dict(trace, ops=trace["ops"][:i] + [dict(op, **{key: plain})] + trace["ops"][i + 1:])
        if op.get("op") == "task_step" and op.get("n", 1) > 1:
            yield dict(trace, ops=trace["ops"][:i] + [dict(op, n=1)] + trace["ops"][i + 1:])


# --------------------------------------------------------------------------

class Task:
    __slots__ = ("it", "lines", "want", "valid", "no_color", "steps_after_noop", "ctx")

    def __init__(self):
        self.it = None
        self.lines = []
        self.want = None
        self.valid = True
        self.no_color = False
        self.steps_after_noop = 0


_SPEC = object()


class World:
    def __init__(self, trace, log):
        from ak import color
        from ak.ppobj import PPTable
        self.PPTable = PPTable
        self.trace = trace
        self.log = log
        self.conf = color.ColorsConfig({"TABLE": {"BORDER": "CYAN"}, "RECORD.NUMBER": "YELLOW:bold"})
        self.enums = {0: rw.ro.build_enum(trace["enums"][0])}
        self.wtypes = {}
        self.recfields = None
        self.spec = trace["table"]
        self.ctxs = []
        self.tasks = {}
        self.last_text = None
        self.stats = {"probes": 0, "probe_fresh": 0, "probe_printed": 0, "probe_inflight": 0,
                      "probe_ranged_printed": 0, "noop_assign": 0, "noop_assign_inflight": 0, "real_changes": 0,
                      "ctor_roundtrips": 0, "setter_roundtrips": 0, "tasks_completed": 0, "tasks_invalidated": 0,
                      "tasks_abandoned": 0, "task_steps": 0, "renders": 0, "removed": 0, "fmt_obj_ctor": 0,
                      "agreed_errors": 0, "limits_in_fmt": 0, "lines_skipped_states": 0, "siblings": 0,
                      "probe_sibling": 0, "siblings_from_str": 0}



class Ctx:
    """one table of the run (the main one, or a sibling built from another table's format object)"""

    def __init__(self, keep="all", limits=_SPEC):
        self.table = None
        self.keep = keep
        self.limits = limits
        self.printed = False
        self.expect = None
        self.saved = []


def _subset(recs, keep):
    if keep == "half":
        return recs[: max(1, len(recs) // 2)]
    if keep == "odd":
        return recs[::2]
    if keep == "first":
        return recs[:1]
    return recs


DUMMY_FIELD = "-                              -"      # the package's placeholder column of a table without anything


def _value_paths(spec):
    """value paths of the fields for tables whose records are not flat tuples"""
    if spec.get("struct") == "recfields_pos":
        return [i if i % 2 else str(i) for i in range(len(spec["fields"]))]
    return [f"[k{i}]" if i % 2 == 0 else f"[sub].[k{i}]" for i in range(len(spec["fields"]))]


def _struct_records(spec, recs):
    if spec.get("struct") in ("recfields", "enhanced"):
        out = []
        for r in recs:
            d = {"sub": {}}
            for i, v in enumerate(r):
                (d if i % 2 == 0 else d["sub"])[f"k{i}"] = v
            out.append(d)
        return out
    return recs


def _types_and_titles(w, spec):
    ft = {}
    if "speed" in spec["fields"]:
        ft["speed"] = w.wtypes.setdefault("speed", rw.ro.UnitFieldType(UNIT_MODIFIERS))
    if spec.get("types"):
        ft.update({n: w.enums[i] for n, i in spec["types"].items()})
    for n, args in (spec.get("wtypes") or {}).items():
        ft.setdefault(n, w.wtypes.setdefault(n, rw.ro.width_field_type(args)))
    return ft, dict(spec.get("titles") or {})


def _record_fields(w, spec):
    """the caller's list of RecordField objects (made once, used for every table of the run)"""
    if w.recfields is None:
        from ak.ppobj import RecordField, ReprStructure
        ft, titles = _types_and_titles(w, spec)
        w.recfields = [RecordField(n, ft.get(n, ReprStructure._DFLT_FIELD_TYPE), path, titles.get(n))
                       for n, path in zip(spec["fields"], _value_paths(spec))]
    return w.recfields


def build_table(w, fmt=None, fmt_obj=None, with_limits=True, ctx=None, initial=False):
    spec = w.spec
    struct = spec.get("struct")
    recs = _struct_records(spec, rw.ro._records(spec))
    if ctx is not None:
        recs = _subset(recs, ctx.keep)
    kw = {}
    assign = None
    if fmt_obj is None:
        if struct == "nofields":
            if initial:
                # created without any description; the format (if any) is assigned afterwards
                assign = fmt
                fmt = None
            elif spec["fields"] != [DUMMY_FIELD]:
                kw["fields"] = list(spec["fields"])
        elif struct in ("recfields", "recfields_pos") or (struct == "enhanced" and not initial):
            kw["fields"] = list(_record_fields(w, spec))
        elif struct == "enhanced":
            assign = fmt
            fmt = ", ".join(f"{n}<-{path}" for n, path in zip(spec["fields"], _value_paths(spec)))
            ft, titles = _types_and_titles(w, spec)
            if ft:
                kw["fields_types"] = ft
            if titles:
                kw["fields_titles"] = titles
        elif not spec.get("nt"):
            kw["fields"] = rw.ro.fields_arg(spec)
        if struct is None:
            if "speed" in spec["fields"]:
                kw.setdefault("fields_types", {})["speed"] = w.wtypes.setdefault("speed", rw.ro.UnitFieldType(UNIT_MODIFIERS))
            if spec.get("types"):
                kw.setdefault("fields_types", {}).update({n: w.enums[i] for n, i in spec["types"].items()})
            if spec.get("wtypes"):
                ft = kw.setdefault("fields_types", {})
                for n, args in spec["wtypes"].items():
                    ft.setdefault(n, w.wtypes.setdefault(n, rw.ro.width_field_type(args)))
            if spec.get("titles"):
                kw["fields_titles"] = dict(spec["titles"])
        kw["fmt"] = fmt
    else:
        kw["fmt_obj"] = fmt_obj
    limits = spec.get("limits") if (ctx is None or ctx.limits is _SPEC) else ctx.limits
    if with_limits and limits is not None:
        kw["limits"] = tuple(limits) if len(recs) % 2 else list(limits)
    broken = spec.get("broken_first") if initial and fmt_obj is None else None
    if broken is not None and broken < len(recs) and len(recs[broken]) > 1:
        good = recs[broken]
        recs[broken] = good[:1]
    else:
        broken = None
    table = w.PPTable(recs, header=spec.get("header"), footer=spec.get("footer"), **kw)
    if assign is not None:
        table.set_fmt(assign)
    if broken is not None:
        try:
            str(table.ch_text(colors_conf=w.conf))
        except IndexError:
            w.stats["fault.record_raised_at_first_print"] = w.stats.get("fault.record_raised_at_first_print", 0) + 1
        recs[broken] = good         # repaired in the caller's list: the table shows the caller's records
    return table


def render(w, table, no_color=False):
    text = str(table.ch_text(colors_conf=w.conf, no_color=no_color))
    w.last_text = text
    return text


def sut(what, fn, *a, **kw):
    try:
        return fn(*a, **kw)
    except Violation:
        raise
    except Exception as e:
        raise Violation("roundtrip", f"{what}-raised-{type(e).__name__}", f"{what}: {e!r}")


def columns_of(fmt_str):
    cols = fmt_str.split(";")[0]
    out = []
    for c in cols.split(","):
        c = c.strip()
        if not c:
            continue
        out.append(c.split(":")[0].split("/")[0].rstrip("!").strip())
    return out


def has_negotiated_range(table):
    s = str(table.fmt)
    return "(" in s.split(";")[0]


def invalidate_tasks(w, c):
    for t in w.tasks.values():
        if t.valid and t.ctx is c:
            t.valid = False
            w.stats["tasks_invalidated"] += 1


def probe(w, c, no_color):
    """the round-trip probe, at this very moment of the table's life"""
    t = c.table
    st = w.stats
    st["probes"] += 1
    if c is not w.ctxs[0]:
        st["probe_sibling"] += 1
    inflight = any(x.it is not None and x.ctx is c for x in w.tasks.values())
    if inflight:
        st["probe_inflight"] += 1
    if c.printed:
        st["probe_printed"] += 1
        if has_negotiated_range(t):
            st["probe_ranged_printed"] += 1
    else:
        st["probe_fresh"] += 1
    # "repr of this object contains fmt string which can be used to apply new format": both spellings
    s = sut("str(table.fmt)", str, t.fmt) if st["probes"] % 2 else sut("repr(table.fmt)", repr, t.fmt)
    if ";" in s:
        st["limits_in_fmt"] += 1
    w.log.add("probe-fmt", s)
    # (a) the constructor accepts it and reproduces the table
    t2 = sut(f"PPTable(fmt=str(table.fmt))", build_table, w, s, None, False, c)
    r0 = sut("render(table)", render, w, t, no_color)
    c.printed = True
    r2 = sut("render(PPTable(fmt=str(table.fmt)))", render, w, t2, no_color)
    st["ctor_roundtrips"] += 1
    if r2 != r0:
        raise Violation("roundtrip", "constructor-gives-different-table",
                        f"fmt {s!r}: " + first_diff(r2, r0))
    # (b) the setter accepts it and nothing changes (also for renderings in flight: it is a no-op)
    sut("table.fmt = str(table.fmt)", t.set_fmt, s)
    st["noop_assign"] += 1
    if inflight:
        st["noop_assign_inflight"] += 1
    r1 = sut("render(table) after fmt = str(fmt)", render, w, t, no_color)
    st["setter_roundtrips"] += 1
    if r1 != r0:
        raise Violation("roundtrip", "setter-changes-table", f"fmt {s!r}: " + first_diff(r1, r0))
    # and the format string it reports now is accepted again (printed state)
    s2 = sut("str(table.fmt)", str, t.fmt)
    sut("table.fmt = str(table.fmt) (second)", t.set_fmt, s2)
    r3 = sut("render(table) after second assignment", render, w, t, no_color)
    if r3 != r0:
        raise Violation("roundtrip", "setter-changes-table", f"fmt {s2!r} (second round): " + first_diff(r3, r0))


def execute(trace, rng):
    log = EventLog()
    gc.disable()
    rw.install_id_seam("always", 13)
    w = World(trace, log)
    status = {"status": OK}
    try:
        try:
            w.ctxs.append(Ctx())
            w.ctxs[0].table = build_table(w, w.spec.get("fmt"), initial=True)
            if w.spec.get("struct"):
                w.stats["struct_" + w.spec["struct"]] = 1
        except Exception as e:
            # a format the constructor rejects is an input matter (C12), not a round-trip matter
            raise _Skip(repr(e))
        for n, op in enumerate(trace["ops"]):
            k = op["op"]
            c = w.ctxs[op.get("tbl", 0) % len(w.ctxs)]
            t = c.table
            if k == "sibling":
                if len(w.ctxs) >= 3:
                    continue
                nc = Ctx(op.get("keep", "all"), op.get("limits"))
                if op.get("via_str"):
                    # ... or from the format string the table reports, with other records / a limits argument
                    s = sut("str(table.fmt)", str, t.fmt)
                    nc.table = sut("PPTable(other records, fmt=str(table.fmt), limits=...)", build_table, w, s, None, True, nc)
                    w.stats["siblings_from_str"] += 1
                else:
                    nc.table = sut("PPTable(other records, fmt_obj=table.fmt)", build_table, w, None, t.fmt, True, nc)
                w.ctxs.append(nc)
                w.stats["siblings"] += 1
            elif k == "render":
                if op.get("how") == "lines":
                    lines = sut("iterate", lambda: [rw.ro.line_to_str(x) for x in t.ch_text(colors_conf=w.conf, no_color=bool(op.get("no_color")))])
                    text = "\n".join(lines)
                else:
                    text = sut("render(table)", render, w, t, bool(op.get("no_color")))
                    if c.expect is not None and not op.get("no_color"):
                        before, which, s = c.expect
                        c.expect = None
                        if text != before:
                            raise Violation("noop", f"assignment-{which}-changes-table",
                                            f"fmt = {s!r} changed the rendering: " + first_diff(text, before))
                c.printed = True
                w.stats["renders"] += 1
                log.add("render", n, hashlib.blake2b(text.encode(), digest_size=6).hexdigest())
            elif k == "probe":
                probe(w, c, bool(op.get("no_color")))
            elif k == "task_start":
                old = w.tasks.pop(op["task"], None)
                if old is not None and old.it is not None:
                    old.it.close()
                    w.stats["tasks_abandoned"] += 1
                task = Task()
                task.ctx = c
                task.no_color = bool(op.get("no_color"))
                res = sut("ch_text()", t.ch_text, colors_conf=w.conf, no_color=task.no_color)
                task.it = sut("iter(result)", iter, res)
                if op.get("first"):
                    line = sut("next(line)", _next, task.it)
                    if line is not _END:
                        task.lines.append(rw.ro.line_to_str(line))
                task.want = sut("render(table)", render, w, t, task.no_color)
                c.printed = True
                w.tasks[op["task"]] = task
            elif k in ("task_step", "task_drain"):
                task = w.tasks.get(op["task"])
                if task is None:
                    continue
                n_steps = op.get("n", 1) if k == "task_step" else 10 ** 6
                finished = False
                for _ in range(n_steps):
                    try:
                        line = _next(task.it)
                    except Exception as e:
                        if task.valid:
                            raise Violation("in-flight", f"line-iteration-raised-{type(e).__name__}",
                                            f"a rendering in progress failed after {task.steps_after_noop} line(s) following "
                                            f"a format assignment that changes nothing: {e!r}")
                        finished = True
                        task.lines = None
                        break
                    if line is _END:
                        finished = True
                        break
                    task.lines.append(rw.ro.line_to_str(line))
                    task.steps_after_noop += 1
                    w.stats["task_steps"] += 1
                if finished:
                    w.tasks.pop(op["task"], None)
                    w.stats["tasks_completed"] += 1
                    if task.valid and task.lines is not None:
                        got = sgr.canon("\n".join(task.lines))
                        if got != sgr.canon(task.want):
                            raise Violation("in-flight", "lines-differ-from-rendering-at-start",
                                            "a rendering consumed line by line, overlapped only by format assignments "
                                            "that change nothing, differs from the whole rendering taken when it started: "
                                            + first_diff(got, task.want))
            elif k == "task_abandon":
                task = w.tasks.pop(op["task"], None)
                if task is not None and task.it is not None:
                    sut("close(iterator)", task.it.close)
                    w.stats["tasks_abandoned"] += 1
            elif k == "set_fmt":
                which = op["which"]
                inflight = any(x.it is not None and x.ctx is c for x in w.tasks.values())
                if which in ("current", "empty", "semi", "semi2", "none_cols"):
                    before = sut("render(table)", render, w, t, False)
                    c.printed = True
                    if which == "current":
                        s = sut("str(table.fmt)", str, t.fmt)
                    else:
                        s = {"empty": "", "semi": ";", "semi2": ";;", "none_cols": None}[which]
                    if s is None:
                        sut("table.fmt = None", t.set_fmt, None)
                    elif op.get("via_prop"):
                        sut(f"table.fmt = <{which}>", setattr, t, "fmt", s)
                    else:
                        sut(f"table.set_fmt(<{which}>)", t.set_fmt, s)
                    w.stats["noop_assign"] += 1
                    if inflight:
                        w.stats["noop_assign_inflight"] += 1
                    for x in w.tasks.values():
                        if x.ctx is c:
                            x.steps_after_noop = 0
                    if op.get("defer"):
                        # compare at the next whole rendering: a line task may run first
                        c.expect = (before, which, s)
                    else:
                        after = sut("render(table)", render, w, t, False)
                        if after != before:
                            raise Violation("noop", f"assignment-{which}-changes-table",
                                            f"fmt = {s!r} changed the rendering: " + first_diff(after, before))
                else:
                    if which == "saved":
                        if not c.saved:
                            continue
                        s = c.saved[n % len(c.saved)]
                        sut("table.fmt = <format string reported earlier by this table>", t.set_fmt, s)
                    elif which == "star":
                        sut("table.fmt = '*'", t.set_fmt, "*")
                    elif which == "limits" and op.get("via_fmt_obj"):
                        lim = tuple(int(x) for x in op["fmt"].lstrip(";").split(":"))
                        sut("table.fmt.set_limits((n, m))", t.fmt.set_limits, lim)
                        w.stats["limits_via_fmt_obj"] = w.stats.get("limits_via_fmt_obj", 0) + 1
                    else:
                        try:
                            t.set_fmt(op["fmt"])
                        except ValueError as e:
                            if op.get("canon") and all(n in w.spec["fields"] for n in columns_of(op["fmt"])):
                                raise Violation("roundtrip", "plain-valid-format-rejected",
                                                f"table.fmt = {op['fmt']!r}: {e!r}")
                            # generated formats are valid; still: rejecting one is an input matter
                            w.stats["agreed_errors"] += 1
                            continue
                    w.stats["real_changes"] += 1
                    c.printed = False
                    c.expect = None
                    invalidate_tasks(w, c)
            elif k == "set_fmt_invalid":
                # a rejected assignment is a fault: it must leave the table exactly as it was
                before = sut("render(table)", render, w, t, False)
                c.printed = True
                fmt_before = sut("str(table.fmt)", str, t.fmt)
                try:
                    t.set_fmt(op["fmt"])
                    rejected = False
                except (ValueError, AssertionError):
                    rejected = True
                except Exception as e:
                    raise Violation("fault", f"invalid-format-raised-{type(e).__name__}", f"fmt {op['fmt']!r}: {e!r}")
                if not rejected and set(op["fmt"]) <= set(",; "):
                    # accepted, and made of separators only: "changes nothing"
                    after = sut("render(table) after a separators-only assignment", render, w, t, False)
                    if after != before or str(t.fmt) != fmt_before:
                        raise Violation("noop", "assignment-separators-changes-table",
                                        f"fmt = {op['fmt']!r} was accepted and changed the table: "
                                        + first_diff(after, before) + f"; fmt {fmt_before!r} -> {str(t.fmt)!r}")
                    continue
                if not rejected:
                    # the format is legal after all (e.g. a field of that name exists): a real change
                    w.stats["real_changes"] += 1
                    c.printed = False
                    c.expect = None
                    invalidate_tasks(w, c)
                    continue
                w.stats["rejected_assignments"] = w.stats.get("rejected_assignments", 0) + 1
                after = sut("render(table) after a rejected assignment", render, w, t, False)
                if after != before or str(t.fmt) != fmt_before:
                    raise Violation("fault", "rejected-assignment-changed-table",
                                    f"fmt = {op['fmt']!r} was rejected but the table changed: " + first_diff(after, before)
                                    + f"; fmt {fmt_before!r} -> {str(t.fmt)!r}")
            elif k == "save_fmt":
                c.saved.append(sut("str(table.fmt)", str, t.fmt))
            elif k == "remove_columns":
                cur = columns_of(str(t.fmt))
                if op.get("breaks"):
                    # aim at the break-by columns of the format in force (if any)
                    brk = [columns_of(x)[0] for x in str(t.fmt).split(";")[0].split(",") if "!" in x and columns_of(x)]
                    if brk:
                        op = dict(op, names=brk)
                left = [c for c in cur if c not in op["names"]]
                if not left or len(left) == len(cur):
                    continue
                if op.get("via_fmt_obj"):
                    # the same operation offered by the format object itself
                    sut("table.fmt.remove_columns", t.fmt.remove_columns, list(op["names"]))
                else:
                    sut("remove_columns", t.remove_columns, list(op["names"]))
                w.stats["removed"] += 1
                c.expect = None
                invalidate_tasks(w, c)
            elif k == "refresh":
                if c is not w.ctxs[0] or w.spec.get("broken_first") is not None or w.spec.get("footer") is None:
                    continue
                full = _struct_records(w.spec, rw.ro._records(w.spec))
                t.records[:] = _subset(full, op["keep"])
                c.keep = op["keep"]
                fmt_s = {"empty": "", "semi": ";", "semi2": ";;", "none_cols": None}[op["which"]]
                sut(f"table.fmt = <{op['which']}> after the records were refreshed", t.set_fmt, fmt_s)
                w.stats["records_refreshed"] = w.stats.get("records_refreshed", 0) + 1
                c.printed = False
                c.expect = None
                invalidate_tasks(w, c)
            elif k == "ft_change":
                for ftype in w.wtypes.values():
                    if hasattr(ftype, "max_width") and not hasattr(ftype, "units"):
                        ftype.max_width = max(op["max_width"], ftype.min_width if op.get("min_width") is None else op["min_width"])
                        if op.get("min_width") is not None:
                            ftype.min_width = op["min_width"]
                        w.stats["field_type_settings_changed"] = w.stats.get("field_type_settings_changed", 0) + 1
            elif k == "other_report":
                if w.spec.get("struct") not in ("recfields", "recfields_pos"):
                    continue
                recs2 = _struct_records(w.spec, rw.ro._records(w.spec))
                other = sut("PPTable(records, fields=<the shared RecordField list>, fields_titles=...)", w.PPTable,
                            recs2, fields=list(_record_fields(w, w.spec)), fields_titles=dict(op.get("titles") or {}))
                sut("render(other report)", lambda: str(other.ch_text(colors_conf=w.conf)))
                w.stats["other_reports"] = w.stats.get("other_reports", 0) + 1
                continue
            elif k == "fmt_obj_ctor":
                r0 = sut("render(table)", render, w, t, False)
                c.printed = True
                t3 = sut("PPTable(fmt_obj=table.fmt)", build_table, w, None, t.fmt, False, c)
                r3 = sut("render(PPTable(fmt_obj=table.fmt))", render, w, t3, False)
                w.stats["fmt_obj_ctor"] += 1
                if r3 != r0:
                    raise Violation("roundtrip", "fmt_obj-constructor-gives-different-table", first_diff(r3, r0))
            else:
                continue
            if "records skipped" in (w.last_text or ""):
                w.stats["lines_skipped_states"] += 1
            log.add("op", n, k, str(t.fmt))
    except _Skip:
        w.stats["agreed_errors"] += 1
    except Violation as v:
        status = violation_result(v)
    st = dict(w.stats)
    st["fault.rejected_assignment"] = st.get("rejected_assignments", 0)
    st["fault.line_task_abandoned"] = st["tasks_abandoned"]
    st["fault.format_replaced_during_line_task"] = st["noop_assign_inflight"]
    nontrivial = bool(st["probe_ranged_printed"] or st["probe_inflight"] or st["noop_assign_inflight"])
    h = hashlib.blake2b(json.dumps([trace["enums"], trace["table"], trace["ops"]], sort_keys=True).encode(),
                        digest_size=8).hexdigest()
    status.update({"digest": log.digest(), "stats": st, "nontrivial": nontrivial, "case": h,
                   "sim_steps": len(trace["ops"]) + st["task_steps"]})
    return status


class _Skip(Exception):
    pass


_END = object()


def _next(it):
    try:
        return next(it)
    except StopIteration:
        return _END
