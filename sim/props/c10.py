"""C10 - rendering is pure: colours never change layout, output has no memory.

RenderWorld history: configurations are created, dropped, made global,
extended; printable objects are created; renderings are requested, consumed
whole or line by line (tasks), abandoned; the garbage collector runs at
scheduled points and id() values of dead objects are re-used adversarially.
Every completed rendering that was not overlapped by a conflicting write is
compared with a rendering of equal objects in a pristine process."""

import gc
import hashlib
import json

from .. import renderworld as rw
from .. import colorgen
from ..core import EventLog, Violation, OK, violation_result
from ..models import sgr

ID = "C10"
ENGINE = "renderworld"
SHRINK_LISTS = ("ops",)
WATCH_FILES = ("ak/color.py", "ak/ppobj.py", "ak/hdoc.py", "ak/ghist.py")
# id_reused / id_calls are reported but not required: since the fix 902f1ff no code under this
# property calls id() any more (the seam stays installed so that a re-introduction is caught)
REQUIRED_PROBES = ("tbl_rendered_then_changed", "tbl_sibling_of_rendered", "renders_checked", "tasks_completed", "gc_runs", "conf_dropped", "ref_requests",
                   "after_other_conf", "after_drop", "tasks_interleaved", "lines_vs_whole", "nocolor_checked")

REAL_VS_STUB = {'real': ['ak.color, ak.ppobj, ak.hdoc, ak.ghist (report building and formatting), ak.mcaller_http (help of method callers)'], 'stub': ['id() as seen by ak.ppobj/ak.color/ak.hdoc/ak.ghist -> simulated allocator with adversarial re-use', 'cyclic GC timing -> gc.disable() + scheduled gc.collect()', 'the git repository behind ProjectRepo -> deterministic in-memory fake (sim/fakegit.py)', 'process-global state -> one fresh forked process per run, one pristine forked process per reference rendering', 'ssl.SSLContext.load_default_certs -> no-op; logging disabled']}

ASSUMPTIONS = ['the pristine reference runs the same code without history: a defect identical with and without history is invisible to the no-memory oracle (it is a C09/C11/C12-type defect)', 'the harness escape scanner ESC [ digits ; : m', 'renderings overlapped by a registration into their configuration are excluded (counted as renders_indeterminate)', 'failures reproduced by the pristine process are input-dependent and not reported (counted as ref_errors_agreed)', 'line tasks of a table end when its format is re-assigned or columns are removed (what an in-flight rendering shows past a real format change is not stated)']

RULE = ("each run = one seeded history of 15-60 ops over 2-4 colour configurations (explicit nested inits overriding "
        "component defaults, pending parents registered later, no_color variants), 2-4 printable objects (pretty-"
        "printer values, tables with shared enum field types / custom and sub palettes / break-by / limits, record "
        "formatters, git-history reports, console help incl. method callers), rendering requests consumed whole, as "
        "plain text or line by line as interleaved tasks (step, drain, abandon), tables re-formatted / stripped of "
        "columns between renderings (oracle: the equal fresh table), with scheduled gc.collect(), dropped "
        "configurations and adversarial id() re-use. Non-trivial iff at least one rendering was checked after another "
        "configuration had been used on the same object or dropped, or a task was interleaved with other renderings; "
        "distinct = digest of the trace.")

TOUCH = ["PPPalette", "RecordPalette", "TitlePalette", "TablePalette", "EnumPalette", "GHistPalette",
         "HCmdPalette", "LLImplPalette", "RecPalette", "GlobalPalette", "red", "sub", "altpp", "AltEnum"]
N_CONF = 4
N_OBJ = 4
N_TASK = 4


def init_zygote():
    rw.init_zygote()


# --------------------------------------------------------------------------
# generation of specs

NAMES_S = ["Linus", "Arnold", "Jerry", "Elizer", "A very long name which needs truncation", "", "ü-ñ", "x",
           "a|b", " padded ", "semi;colon,comma:colon", "Jerry", "\u65e5\u672c\u8a9e", "e\u0301te\u0301", "two\nlines", "cr\rlf\r\nend"]


def gen_enum(rng):
    vals = []
    used = set()
    for _ in range(rng.randint(2, 5)):
        v = rng.choice([0, 1, 2, 3, 10, 17, 200])
        if v in used:
            continue
        used.add(v)
        vals.append([v, rng.choice(["Ok", "Active", "Error status", "Closed", "n/a"]),
                     # (names of the enum palette; "nosuch" and ids of the configuration are not among them)
                     rng.choice([None, "name_good", "name_warn", "error", "value", "number", "nosuch", "ERROR", "OK",
                                 "TABLE.BORDER"])])
    spec = {"values": vals}
    if rng.random() < 0.5:
        spec["missing"] = [rng.choice(["<?>", "unknown"]), rng.choice(["error", "name_warn"])]
    if rng.random() < 0.1:
        spec["user_marker"] = True      # an application's subclass that appends a mark to what super() returns
    return spec


def gen_table(rng, n_enums, big=False):
    fields = ["id", "name"]
    if n_enums and rng.random() < 0.75:
        fields.append("status")
    if rng.random() < 0.6:
        fields.append("level")
    if rng.random() < 0.4:
        fields.append("flag")
    rng.shuffle(fields)
    recs = []
    sizes = [0, 1, 2, 3, 5, 8, 12] + ([25, 55] if big else [])
    if rng.random() < 0.03:
        sizes = [52, 64]
    for i in range(rng.choice(sizes)):
        rec = []
        for f in fields:
            if f == "id":
                rec.append(i + 1)
            elif f == "name":
                rec.append(rng.choice(NAMES_S + (["w" * 130, "tab\there"] if big else [])))
                if rng.random() < 0.015:
                    # fault: the value is not ready the first time(s) its text is asked for
                    rec[-1] = {"flaky": rec[-1] or "x", "fails": rng.choice([1, 1, 2])}
            elif f == "status":
                rec.append(rng.choice([0, 1, 2, 3, 10, 17, 200, 999, None, "1", "10", "None", "17", 2.0, "2.0", 0.0, -0.0]))   # (look-alikes of other types too)
            elif f == "level":
                rec.append(rng.choice([7, 10, 17, 3.5, -2, None, 123456789, "7", "None", "3.5", 7.0]))
            else:
                rec.append(rng.choice([True, False, None, True, "True", "None", 1]))
        recs.append(rec)
    spec = {"kind": "table", "fields": fields, "records": recs}
    if not recs:
        # without records and without fields= the table has a dummy column only
        pass
    if rng.random() < 0.05:
        # all columns have an application field type with a palette of its own; the titles hold numbers / keywords
        spec["own_palette_cols"] = True
        spec["titles"] = {f: rng.choice([["N", 2024], [None, "x"], ["Year", 2024, True], "plain"]) for f in fields}
        cols = [f + rng.choice(["", ":1-12", ":3"]) for f in rng.sample(fields, rng.randint(1, len(fields)))]
        if rng.random() < 0.6:
            spec["fmt"] = ",".join(cols)
        return spec
    if "status" in fields:
        spec["types"] = {"status": rng.randrange(n_enums)}
    if "level" in fields and rng.random() < 0.08:
        spec["dec_col"] = True      # the 'level' column has the application's long-lived field type (decimals setting)
    if len(recs) >= 8 and rng.random() < 0.25:
        # which records are visible depends on the break lines: a break-by column, limits that hide records,
        # the other columns take their widths from the visible records
        brk = rng.choice([f for f in fields if f != "name"])
        others = [f for f in rng.sample(fields, len(fields)) if f != brk][: rng.randint(1, 2)]
        if "name" not in others:
            others[0] = "name"
        cols = [brk + "!"] + [f + rng.choice(["", "", ":1-40", ":2-30"]) for f in others]
        rng.shuffle(cols)
        spec["fmt"] = ",".join(cols) + f";{rng.randint(1, 3)}:{rng.randint(0, 3)}"
        spec["brk_lim"] = True
        return spec
    cols = []
    if rng.random() < 0.6:
        for f in rng.sample(fields, rng.randint(1, len(fields))):
            c = f
            if f == "status" and rng.random() < 0.6:
                c += "/" + rng.choice(["val", "name", "full"])
            if rng.random() < 0.2:
                c += "!"
            r = rng.random()
            if r < 0.3:
                c += f":{rng.randint(0, 12)}"
            elif r < 0.6:
                a = rng.randint(0, 6)
                c += f":{a}-{a + rng.randint(0, 12)}"
            cols.append(c)
        if rng.random() < 0.2 and "status" in fields:
            cols.append("status/" + rng.choice(["val", "name"]))
        fmt = ",".join(cols)
        if rng.random() < 0.3:
            fmt += f";{rng.randint(0, 3)}:{rng.randint(0, 3)}"
        if rng.random() < 0.3 and len(recs) >= 4 and cols:
            # break lines together with limits that really hide records: which records are visible
            # depends on the break-by columns
            if not any("!" in c for c in cols):
                i = rng.randrange(len(cols))
                head, sep, tail = cols[i].partition(":")
                cols[i] = head + "!" + sep + tail
            fmt = ",".join(cols) + f";{rng.randint(1, 2)}:{rng.randint(0, 2)}"
        spec["fmt"] = fmt
    elif rng.random() < 0.2:
        spec["fmt"] = f";{rng.randint(0, 2)}:{rng.randint(0, 2)}"
    if rng.random() < 0.3:
        spec["header"] = rng.choice(["Title", "A header that is much longer than the table itself, really"])
    if rng.random() < 0.3:
        spec["footer"] = rng.choice(["", "custom footer"])
    if rng.random() < 0.3:
        # (title items need not be strings: numbers and keywords are shown in their own colours)
        spec["titles"] = {"name": rng.choice(["Full\nName", "N", ["Full", "Name"], ["Nm"], ["Year", 2024], ["N", None, True]])}
    if rng.random() < 0.2:
        spec["limits"] = [rng.randint(0, 2), rng.randint(0, 2)]
        if rng.random() < 0.25:
            spec["limits"][rng.randrange(2)] = None       # one side left open
    if rng.random() < 0.3 and recs:
        spec["nt"] = True
    elif rng.random() < 0.15:
        spec["fields_as"] = rng.choice(["tuple", "strenum"])
    if rng.random() < 0.12:
        spec["skip_columns"] = [rng.choice(fields)] if len(fields) > 2 and "fmt" not in spec else []
    if rng.random() < 0.12:
        spec["via_fmt_obj"] = True
    if rng.random() < 0.1:
        spec["usersub"] = True       # an object of a user's subclass of PPTable that overrides gen_ch_lines
    if rng.random() < 0.15:
        plain = [f for f in fields if f != "status"]
        spec["wtypes"] = {rng.choice(plain): [rng.randint(0, 4), rng.randint(4, 9)] + (["center"] if rng.random() < 0.4 else [])}
    if rng.random() < 0.08 and recs:
        # a user's field type that raises for some values: the rendering of this table fails half-way
        spec["poison"] = rng.choice([f for f in fields if f in ("name", "level")] or ["id"])
        j = rng.randrange(len(recs))
        recs[j][fields.index(spec["poison"])] = "Jerry" if spec["poison"] == "name" else 13
    if rng.random() < 0.08 and recs and "name" in fields:
        # a cell whose text is produced by a nested rendering
        recs[rng.randrange(len(recs))][fields.index("name")] = {"nested": rng.choice([[1, "a"], {"k": None}, []])}
    if rng.random() < 0.08 and len(fields) >= 3 and recs:
        # an "enhanced" table: values are found by the paths given in the format
        f0, f1, f2 = fields[0], fields[1], fields[2]
        last = fields[-1]
        spec = {"kind": "table", "fields": fields, "records": recs, "enhanced": True,
                "fmt": f"{f0}<-0.0,{f1}<-0.1:2-9,{f2}<-1.[k],{last}2<-2.v"}
        if "status" in (f0, f1, f2):
            spec["types"] = {"status": rng.randrange(n_enums)} if n_enums else {}
    return spec


def _colname(c):
    return c.strip().split(":")[0].split("/")[0].rstrip("!").strip()


def apply_tbl_op(spec, op):
    """the description of a FRESH table equal to what a table described by spec becomes after a format
    assignment / column removal; None when the operation does not apply.  Shared by generator and world."""
    if spec.get("kind") != "table" or spec.get("enhanced"):
        return None
    ocols, _, olim = (spec.get("fmt") or "").partition(";")
    eff = dict(spec)
    if op["op"] == "tbl_refmt":
        cols = op.get("cols")
        lim = op.get("lim")
        if not cols and not lim:
            return None
        ncols = ",".join(cols) if cols else ocols
        if cols:
            eff.pop("skip_columns", None)
        if lim:
            nl = f"{lim[0]}:{lim[1]}"
            eff.pop("limits", None)
        else:
            nl = olim
        eff["fmt"] = ncols + (";" + nl if nl else "")
        return eff
    if op["op"] == "tbl_remove":
        names = list(op["names"])
        if ocols.strip():
            cur = [c for c in ocols.split(",") if c.strip()]
            left = [c for c in cur if _colname(c) not in names]
            if not left or len(left) == len(cur):
                return None
            eff["fmt"] = ",".join(left) + (";" + olim if olim else "")
            return eff
        skip = list(spec.get("skip_columns") or [])
        shown = [f for f in spec["fields"] if f not in skip]
        gone = [f for f in names if f in shown]
        if not gone or len(gone) == len(shown):
            return None
        eff["skip_columns"] = skip + gone
        return eff
    return None


def sibling_spec(src, sib):
    """description of the fresh table equal to PPTable(subset of records, fmt_obj=<table described by src>.fmt,
    limits=..., skip_columns=...); None when it does not apply"""
    if src.get("kind") != "table" or src.get("enhanced") or src.get("poison"):
        return None
    eff = dict(src)
    recs = src["records"]
    keep = sib.get("keep", "all")
    eff["records"] = (recs[: max(1, len(recs) // 2)] if keep == "half" else recs[::2] if keep == "odd"
                      else recs[:1] if keep == "first" else recs)
    if src.get("nt") and not eff["records"]:
        return None
    if sib.get("limits") is not None:
        eff["limits"] = list(sib["limits"])
    eff["skip_used"] = []
    if sib.get("skip"):
        e2 = apply_tbl_op(eff, {"op": "tbl_remove", "names": sib["skip"]})
        if e2 is not None:
            eff = e2
            eff["skip_used"] = list(sib["skip"])
    eff.pop("via_fmt_obj", None)
    return eff


def tbl_fmt_string(op):
    s = ",".join(op.get("cols") or [])
    if op.get("lim"):
        s += f";{op['lim'][0]}:{op['lim'][1]}"
    return s


def gen_tbl_op(rng, spec):
    """a format assignment / column removal derived from the table's current description"""
    fields = spec["fields"]
    ocols = (spec.get("fmt") or "").partition(";")[0]
    cur = [c.strip() for c in ocols.split(",") if c.strip()] or [f for f in fields if f not in (spec.get("skip_columns") or [])]
    if rng.random() < 0.25:
        return {"op": "tbl_remove", "names": rng.sample(fields, rng.randint(1, 2)), "via_fmt_obj": rng.random() < 0.3}
    how = rng.choice(["drop", "drop", "reorder", "toggle", "fresh", "same", "limits"])
    if any("!" in c for c in cur) and len(cur) > 1 and rng.random() < (0.8 if spec.get("brk_lim") else 0.5):
        how = "drop"         # without its break-by column other records are visible under the same limits
    cols = list(cur)
    if how == "drop" and len(cols) > 1:
        brk = [i for i, c in enumerate(cols) if "!" in c]
        del cols[rng.choice(brk) if brk and rng.random() < 0.7 else rng.randrange(len(cols))]
    elif how == "reorder":
        rng.shuffle(cols)
    elif how == "toggle":
        i = rng.randrange(len(cols))
        c = cols[i]
        if "!" in c:
            cols[i] = c.replace("!", "")
        else:
            head, sep, tail = c.partition(":")
            cols[i] = head + "!" + sep + tail
    elif how == "fresh":
        cols = []
        for f in rng.sample(fields, rng.randint(1, len(fields))):
            c = f + ("!" if rng.random() < 0.25 else "")
            r = rng.random()
            if r < 0.3:
                c += f":{rng.randint(0, 12)}"
            elif r < 0.6:
                a = rng.randint(0, 6)
                c += f":{a}-{a + rng.randint(0, 12)}"
            cols.append(c)
    elif how == "limits":
        cols = None
    lim = [rng.randint(0, 3), rng.randint(0, 3)] if (how == "limits" or rng.random() < 0.15) else None
    op = {"op": "tbl_refmt", "cols": cols, "lim": lim, "via_prop": rng.random() < 0.5}
    if how == "limits" and rng.random() < 0.5:
        op["via_fmt_obj"] = True    # a pager that only holds the table's format object changes the limits in place
    return op


PP_VALUES = [
    {"a": 1, "b": [1, 2, 3], "c": {"x": None, "y": True}},
    [1, 2.5, "three", None, True, {}],
    {"k" + str(i): i for i in range(40)},
    list(range(80)),
    {"nested": {"deep": {"deeper": [{"a": "b"}, [], {}]}}, "t": [1, [2, [3]]]},
    "just a string",
    {"1": "digit key", "s": "str key", "z": [{"p": 1, "q": [10, 20]}]},
    [],
    {"long": "x" * 210, "n": -1.5e10},
    {"neg0": -0.0, "big": 10 ** 30, "t": True, "f": False, "e": "", "q": "say \"hi\"", "nl": "two\nlines", "u": "ünï ©"},
    [[[[[["deep"]]]]], {"a": {"b": {"c": {"d": {"e": {}}}}}}],
    [0.1 * i for i in range(60)],
    ["w" * 70, "v" * 70, "u" * 70],
    {"k": ["x" * 148, "y"], "z": ["y" * 149]},
    [True, False, None, 0, 1, "", [], {}, [[]], [{}]],
    # dicts whose keys are not strings; keys that are equal but of different types in different objects
    {"__pairs__": [[0, "zero"], ["s", "text"], [None, "none"]]},
    {"__pairs__": [[False, "no"], ["k", 1], [2.5, "float"]]},
    {"__pairs__": [[True, "yes"], ["z", 0], [{"__tuple__": [1, 2]}, "pair"]]},
    {"__pairs__": [[1, "one"], ["b", 2], [{"__tuple__": [1, "a"]}, "mixed"]]},
    {"__pairs__": [[1.0, "float one"], ["c", 3], [0.0, "float zero"]]},
    [{"__pairs__": [[10, "ten"], [9, "nine"], ["9", "str nine"]]}, {"__tuple__": [1, [2, 3], {"__tuple__": []}]}],
]


def gen_enum_heavy_table(rng, n_enums):
    """a table with many records and many different values in its enum column: the field type object shared by
    all tables of the run meets hundreds of distinct values over a long history"""
    fields = ["id", "status", "name"]
    recs = [[i + 1, rng.randrange(5000) if rng.random() < 0.9 else rng.choice([0, 1, 2, 3, 10, 17, 200]),
             rng.choice(NAMES_S)] for i in range(rng.choice([45, 50, 50, 64]))]
    spec = {"kind": "table", "fields": fields, "records": recs, "types": {"status": 0}}
    fmt = rng.choice([None, "id,status/val", "status/val,name", "id,status/name,status/val", "status/full,id", "status/val"])
    if fmt:
        spec["fmt"] = fmt
    if rng.random() < 0.7:
        spec["titles"] = {"status": "St"}
    return spec


def gen_object(rng, n_enums, big=False):
    r = rng.random()
    if r < 0.45:
        return gen_table(rng, n_enums, big)
    if r < 0.52:
        return {"kind": "pp", "value": rng.choice(PP_VALUES), "fmt_json": rng.random() < 0.4,
                "module_pp": rng.random() < 0.3}
    if r < 0.57:
        return {"kind": rng.choice(["userbox", "usernote"]), "keep_lines": rng.random() < 0.4,
                "items": [rng.choice(["a", "bc", 1, 2.5, "", "ü", True, None, "long " * 5]) for _ in range(rng.randint(0, 4))]}
    if r < 0.60:
        return {"kind": "ppwrap", "value": rng.choice(PP_VALUES)}
    if r < 0.72:
        fields = ["id", "name", "status"] if n_enums else ["id", "name"]
        fmt = rng.choice(["id:4,name:3-10", "name:8,id:2-6", "id:3,name:10"])
        spec = {"kind": "recfmt", "fields": fields, "fmt": fmt,
                "records": [[i + 1, rng.choice(NAMES_S), rng.choice([0, 1, 2, 999, None])][: len(fields)]
                            for i in range(rng.randint(1, 3))]}
        if n_enums:
            spec["fmt"] = fmt + rng.choice([",status/full", ",status/name:4-9", ",status/val:3"])
            spec["types"] = {"status": rng.randrange(n_enums)}
        return spec
    if r < 0.84:
        repo = rng.choice(["linear", "branches", "parent+lib", "parent+lib"])
        bugs = ["BUG-211", "BUG-211 c", "BUG", "no bug", "BUG-xxx"] if repo == "parent+lib" else \
               ["BUG-111", "BUG-133", "BUG", "BUG-xxx", "BUG-177", "BUG-444"]
        return {"kind": "ghist", "repo": repo, "bug": rng.choice(bugs), "shared_fmt": rng.random() < 0.5}
    return {"kind": "hdoc", "what": rng.choice(["cls", "obj", "derived", "method", "mcaller", "noted", "noted_method",
                                                   "explicit", "explicit_cls", "explicit_method", "func"]),
            "level": rng.choice([1, 2])}


PALETTES_FOR = {
    "table": [None, None, {"cls": "red"}, {"cls": "sub"}, {"cls": "red", "obj": True}, {"cls": "sub", "obj": True},
              {"cls": "theme_a"}, {"cls": "theme_b"}, {"cls": "theme_b", "obj": True}],
    "pp": [None, None, {"cls": "altpp"}, {"cls": "altpp", "obj": True}, {"cls": "PPPalette", "synced": True},
           {"cls": "altpp", "synced": True}, {"cls": "pptheme_a"}, {"cls": "pptheme_b"}],
    "ghist": [None, None, {"cls": "altghist"}, {"cls": "GHistPalette", "synced": True}],
    "recfmt": [None, None, {"cls": "altrec"}],
    "hdoc": [None],
    "ppwrap": [None],
    "userbox": [None],
    "usernote": [None],
}
GLOBAL_ONLY = ("hdoc", "ppwrap")
POKES = ["len", "add", "slice", "fixed", "fixed2", "fmt", "getch", "iadd", "eq"]


def gen_usr_batches(rng):
    """user ids are described only in terms of later user ids (never cyclic with any init)"""
    ids = ["USR.A", "USR.B", "USR.C"]
    out = {}
    for i, sid in enumerate(ids):
        out[sid] = colorgen.gen_descr(rng, ids[i + 1:], True)
    return out


def generate(rng, tier):
    n_enums = rng.choice([0, 1, 1, 2])
    enums = [gen_enum(rng) for _ in range(n_enums)]
    inits = [colorgen.nest(colorgen.gen_init(rng), rng) for _ in range(rng.randint(2, 3))]
    if rng.random() < 0.5:
        inits.append({})
    objs = [gen_object(rng, n_enums, tier != "quick") for _ in range(rng.randint(2, 4))]
    if any(o["kind"] == "recfmt" and o.get("types") for o in objs):
        # (a record formatter cannot cut a cell that outgrows its fixed width - an input matter, s11.2:
        # no marks where one of them shares the enum types)
        for e in enums:
            e.pop("user_marker", None)
    if rng.random() < 0.06 or any(o["kind"] == "pp" and "__pairs__" in json.dumps(o["value"]) for o in objs):
        # several values whose dict keys are equal across types (False / 0 / 0.0, True / 1 / 1.0) in one history
        for v in rng.sample(PP_VALUES[-6:], 2):
            objs.append({"kind": "pp", "value": v, "fmt_json": rng.random() < 0.3, "module_pp": rng.random() < 0.3})
    if any(o["kind"] == "ghist" and o.get("shared_fmt") for o in objs) and rng.random() < 0.7:
        # a second report served by the same formatter object
        repo = rng.choice(["linear", "branches", "parent+lib"])
        bugs = ["BUG-211", "BUG-211 c", "BUG"] if repo == "parent+lib" else ["BUG-111", "BUG-133", "BUG", "BUG-177"]
        objs.append({"kind": "ghist", "repo": repo, "bug": rng.choice(bugs), "shared_fmt": True})
        if rng.random() < 0.6:
            # ... and little else going on: the two reports are consumed in turns
            objs = [o for o in objs if o["kind"] == "ghist"] + [o for o in objs if o["kind"] != "ghist"][:1]
    if rng.random() < 0.05:
        # two small tables whose enum columns (one shared field type) hold equal values of different types:
        # 1 / 1.0 / True, 2 / 2.0, 0 / 0.0 / False are one dictionary key each, and are printed differently
        n_enums = max(1, n_enums)
        if not enums:
            enums = [gen_enum(rng)]
        twins = []
        for pool in ([0, 1, 2, 3, 2, 1], [0.0, 1.0, 2.0, True, False, 3.0, -0.0]):
            recs = [[i + 1, rng.choice(pool)] for i in range(rng.randint(2, 5))]
            if -0.0 in pool and rng.random() < 0.6:
                # ... and equal values of ONE type that print differently, side by side
                recs[:2] = [[1, rng.choice([0.0, -0.0])], [2, rng.choice([0.0, -0.0])]]
                recs[rng.randrange(2)][1] = -0.0 if str(recs[0][1]) == str(recs[1][1]) == "0.0" else recs[0][1]
                if str(recs[0][1]) == str(recs[1][1]):
                    recs[1][1] = 0.0 if str(recs[0][1]) == "-0.0" else -0.0
            t = {"kind": "table", "fields": ["id", "status"], "records": recs, "types": {"status": 0}}
            fmt = rng.choice([None, "status/val,id", "status/full", "id,status/val"])
            if fmt:
                t["fmt"] = fmt
            twins.append(t)
        rng.shuffle(twins)
        objs = twins + objs[:1]
    long_run = rng.random() < 0.03
    if long_run:
        # a long history for the shared field types: many big tables with many different enum values
        n_enums = max(1, n_enums)
        if not enums:
            enums = [gen_enum(rng)]
        for e in enums:
            e["values"].append([1234567, "Big", None])      # a long declared value: '/val' cells are padded to it
        objs = [gen_enum_heavy_table(rng, n_enums) for _ in range(rng.randint(8, 12))] + objs[:1]
    usr = gen_usr_batches(rng)
    ops = []
    live_conf = set()
    live_obj = {}
    live_task = {}
    cur = {}          # obj slot -> description of the object as re-formatted so far
    rendered = set()  # obj slots rendered since they were made
    n_ops = rng.randint(15, 60 if tier != "quick" else 45)
    if long_run:
        n_ops = rng.randint(80, 140)

    def render_args(o):
        kind = cur[o]["kind"]
        conf = rng.choice(sorted(live_conf) + ["global"]) if (live_conf and kind not in GLOBAL_ONLY) else "global"
        a = {"obj": o, "conf": conf, "no_color": (rng.random() < 0.25 and kind not in GLOBAL_ONLY),
             "palette": rng.choice(PALETTES_FOR[kind]), "rec": rng.randrange(3)}
        if a["palette"] and a["palette"].get("synced"):
            a["conf"] = "global"
        if kind == "ppwrap" and rng.random() < 0.35:
            a["via_repr"] = True      # the interactive console's way: repr(wrapper) prints the text
        return a

    while len(ops) < n_ops:
        r = rng.random()
        if long_run and live_conf:
            r3 = rng.random()
            if r3 < 0.22:
                r = 0.09          # another object: the tables of a long run take turns
            elif r3 < 0.6 and live_obj:
                r = 0.6           # ... and are rendered
        if not live_conf or r < 0.08:
            s = rng.randrange(N_CONF)
            ops.append({"op": "conf_new", "slot": s, "init": rng.randrange(len(inits)), "no_color": rng.random() < 0.12})
            live_conf.add(s)
        elif not live_obj or r < 0.16:
            o = rng.randrange(N_OBJ)
            j = rng.randrange(len(objs))
            srcs = [x for x in sorted(live_obj) if x != o and cur[x]["kind"] == "table"]
            sib = None
            if srcs and rng.random() < 0.4:
                # a second table made from the format object of a live one (both stay in use)
                of = rng.choice(srcs)
                sib = {"of": of, "keep": rng.choice(["half", "odd", "first", "all"]),
                       "limits": rng.choice([None, None, [1, 1], [0, 2], [2, 0], [1, 0]]),
                       "skip": rng.sample(cur[of]["fields"], 1) if rng.random() < 0.3 else None}
                eff = sibling_spec(cur[of], sib)
                if eff is None:
                    sib = None
                else:
                    eff.pop("skip_used", None)
            if sib is not None:
                ops.append({"op": "obj_new", "slot": o, "spec": j, "sib": sib})
                cur[o] = eff
            else:
                ops.append({"op": "obj_new", "slot": o, "spec": j})
                cur[o] = objs[j]
            live_obj[o] = j
            rendered.discard(o)
            for t in [t for t, oo in live_task.items() if oo == o]:
                del live_task[t]
        elif r < 0.22:
            s = rng.choice(sorted(live_conf))
            ops.append({"op": "conf_drop", "slot": s})
            live_conf.discard(s)
            if rng.random() < 0.7:
                ops.append({"op": "gc"})
            if rng.random() < 0.7:
                s2 = rng.randrange(N_CONF)
                ops.append({"op": "conf_new", "slot": s2, "init": rng.randrange(len(inits)), "no_color": False})
                live_conf.add(s2)
        elif r < 0.28:
            ops.append({"op": "conf_global", "slot": rng.choice(sorted(live_conf))} if rng.random() < 0.8
                       else {"op": "conf_global_none"})
        elif r < 0.36:
            k = rng.randint(1, 3)
            ids = rng.sample(sorted(usr), k)
            ops.append({"op": "conf_add", "slot": rng.choice(sorted(live_conf) + ["global"]),
                        "batch": {sid: usr[sid] for sid in ids}})
        elif r < 0.42:
            ops.append({"op": "touch", "slot": rng.choice(sorted(live_conf) + ["global"]),
                        "cls": rng.choice(TOUCH),
                        "no_color": rng.random() < 0.3, "synced": rng.random() < 0.15})
        elif r < 0.46:
            ops.append({"op": "gc"})
        elif r < 0.53 and any(cur[o]["kind"] == "table" for o in live_obj):
            # the life of a table: its format is re-assigned / columns are removed between renderings
            tables = sorted(o for o in live_obj if cur[o]["kind"] == "table")
            shown = [o for o in tables if o in rendered]
            o = rng.choice(shown) if shown and rng.random() < 0.8 else rng.choice(tables)
            a = gen_tbl_op(rng, cur[o])
            a["obj"] = o
            new = apply_tbl_op(cur[o], a)
            if new is not None:
                cur[o] = new
                for t in [t for t, oo in live_task.items() if oo == o]:
                    del live_task[t]
            ops.append(a)
            if new is not None and rng.random() < 0.7:
                # ... and the table is shown again
                a = render_args(o)
                a["op"] = "render"
                a["how"] = rng.choice(["str", "str", "plain", "lines"])
                a["late"] = rng.random() < 0.4
                ops.append(a)
                rendered.add(o)
        elif r < 0.70:
            o = rng.choice(sorted(live_obj))
            rendered.add(o)
            a = render_args(o)
            a["op"] = "render"
            a["how"] = rng.choice(["str", "str", "plain", "lines"])
            a["late"] = rng.random() < 0.4
            if a["how"] == "lines" and not a["late"] and rng.random() < 0.3:
                a["edit_lines"] = True
            if rng.random() < (0.5 if cur[o]["kind"] == "recfmt" else 0.2):
                a["poke"] = rng.choice(POKES)
            if a["conf"] == "global" and not a["no_color"] and not a["palette"] and rng.random() < 0.3:
                a["how"] = "dunder"
            ops.append(a)
        elif r < 0.7025:
            # the preferences dialog changes a setting of the application's long-lived field type object
            ops.append({"op": "app_setting", "decimals": rng.choice([0, 1, 2, 3, 5])})
        elif r < 0.705:
            # the application changes its environment (for the child processes it starts: a pager, git): no
            # rendering may depend on it
            ops.append({"op": "env", "name": rng.choice(["NO_COLOR", "CLICOLOR", "CLICOLOR_FORCE", "FORCE_COLOR", "TERM",
                                                         "COLUMNS", "LINES", "COLORTERM", "LANG", "PYTHONIOENCODING"]),
                        "value": rng.choice(["1", "0", "dumb", "40", "", None])})
        elif r < 0.80 or not live_task:
            o = rng.choice(sorted(live_obj))
            t = rng.randrange(N_TASK)
            a = render_args(o)
            if a["palette"] and a["palette"].get("synced"):
                a["palette"] = None       # a synced palette follows the global configuration: immediate renderings only
            a["op"] = "task_start"
            a["task"] = t
            a["late"] = rng.random() < 0.4
            ops.append(a)
            live_task[t] = o
        else:
            t = rng.choice(sorted(live_task))
            r2 = rng.random()
            if r2 < 0.5:
                ops.append({"op": "task_step", "task": t, "n": rng.randint(1, 4)})
            elif r2 < 0.75:
                ops.append({"op": "task_drain", "task": t})
                del live_task[t]
            elif r2 < 0.83:
                ops.append({"op": "task_whole", "task": t, "how": rng.choice(["str", "plain"])})
            elif r2 < 0.92:
                ops.append({"op": "task_poke", "task": t, "what": rng.choice(POKES)})
            else:
                ops.append({"op": "task_abandon", "task": t})
                del live_task[t]
    for t in sorted(live_task):
        ops.append({"op": "task_drain", "task": t})
    shared = [j for j, o in enumerate(objs) if o["kind"] == "ghist" and o.get("shared_fmt")]
    if len(shared) >= 2 and live_conf:
        # the reports served by one formatter object, consumed in turns: one is read line by line while the
        # other is printed
        a, b = rng.sample(shared, 2)
        conf = rng.choice(sorted(live_conf))
        nc = rng.random() < 0.3
        ops += [{"op": "obj_new", "slot": 0, "spec": a}, {"op": "obj_new", "slot": 1, "spec": b},
                {"op": "task_start", "task": 0, "obj": 0, "conf": conf, "no_color": nc, "palette": None, "rec": 0,
                 "late": rng.random() < 0.4},
                {"op": "task_step", "task": 0, "n": rng.randint(1, 6)},
                {"op": "render", "obj": 1, "conf": conf, "no_color": rng.random() < 0.3, "palette": None, "rec": 0,
                 "how": rng.choice(["str", "lines"]), "late": False},
                {"op": "task_drain", "task": 0}]
    r_tail = rng.random()
    if r_tail < 0.07 and live_conf:
        # one value printed by the module's shared printer: read line by line, and - while that reader is in the
        # middle of it - printed whole as well (the very same object, so also the same nested containers)
        objs.append({"kind": "pp", "value": rng.choice([{"k": [1, 2, {"z": None}], "m": {"a": [3, [4, 5]], "b": "x"}},
                                                        [[1, [2, [3, {"d": {"e": [6]}}]]], {"k": [7, 8]}]]),
                     "fmt_json": False, "module_pp": True})
        conf = rng.choice(sorted(live_conf))
        ops += [{"op": "obj_new", "slot": 0, "spec": len(objs) - 1},
                {"op": "task_start", "task": 0, "obj": 0, "conf": conf, "no_color": rng.random() < 0.3, "palette": None,
                 "rec": 0, "late": False},
                {"op": "task_step", "task": 0, "n": rng.randint(1, 5)},
                {"op": "render", "obj": 0, "conf": conf, "no_color": rng.random() < 0.3, "palette": None, "rec": 0,
                 "how": rng.choice(["str", "str", "plain"]), "late": False},
                {"op": "task_drain", "task": 0}]
    elif r_tail < 0.14:
        # a palette kept in sync with the global configuration, used before and after the global configuration
        # is replaced by another one
        objs.append({"kind": "pp", "value": rng.choice(PP_VALUES[:6]), "fmt_json": rng.random() < 0.3, "module_pp": False})
        pal = rng.choice([{"cls": "PPPalette", "synced": True}, {"cls": "altpp", "synced": True}])
        ops += [{"op": "conf_new", "slot": 0, "init": rng.randrange(len(inits)), "no_color": False},
                {"op": "conf_global", "slot": 0},
                {"op": "obj_new", "slot": 0, "spec": len(objs) - 1},
                {"op": "render", "obj": 0, "conf": "global", "no_color": False, "palette": pal, "rec": 0, "how": "str",
                 "late": False},
                {"op": "conf_new", "slot": 1, "init": rng.randrange(len(inits)), "no_color": False},
                {"op": "conf_global", "slot": 1},
                {"op": "render", "obj": 0, "conf": "global", "no_color": False, "palette": pal, "rec": 0,
                 "how": rng.choice(["str", "lines"]), "late": False},
                # ... and back to the first one (which has met this palette class before)
                {"op": "conf_global", "slot": 0},
                {"op": "render", "obj": 0, "conf": "global", "no_color": False, "palette": pal, "rec": 0,
                 "how": "str", "late": False}]
    elif r_tail < 0.19 and live_conf:
        # the application's long-lived field type object: a table is shown, the preferences dialog changes the
        # number of decimals, a new table over the same data is shown
        objs.append({"kind": "table", "fields": ["id", "name", "level"], "dec_col": True, "footer": "",
                     "records": [[1, "a", 3.14159], [2, "bb", rng.choice([2.5, 1234.56789, 0.001])], [3, "c", None]]})
        conf = rng.choice(sorted(live_conf))
        j = len(objs) - 1
        first, second = rng.sample([0, 1, 2, 3, 5], 2)
        ops += [{"op": "app_setting", "decimals": first},
                {"op": "obj_new", "slot": 0, "spec": j},
                {"op": "render", "obj": 0, "conf": conf, "no_color": rng.random() < 0.3, "palette": None, "rec": 0,
                 "how": "str", "late": False},
                {"op": "app_setting", "decimals": second},
                {"op": "obj_new", "slot": 0, "spec": j},
                {"op": "render", "obj": 0, "conf": conf, "no_color": rng.random() < 0.3, "palette": None, "rec": 0,
                 "how": rng.choice(["str", "lines"]), "late": False}]
    return {"enums": enums, "inits": inits, "objs": objs, "ops": ops,
            "id_policy": rng.choice(["always", "always", "coin", "never"])}


def _simplify_table(spec):
    for i in range(len(spec.get("records", ()))):
        yield dict(spec, records=spec["records"][:i] + spec["records"][i + 1:])
    for key in ("header", "footer", "titles", "limits", "nt", "skip_columns", "via_fmt_obj", "usersub", "fields_as", "fmt"):
        if spec.get(key) not in (None, False, []):
            yield {k: v for k, v in spec.items() if k != key}
    fmt = spec.get("fmt")
    if fmt and ";" in fmt:
        yield dict(spec, fmt=fmt.split(";")[0])
    if fmt and "," in fmt.split(";")[0]:
        cols = fmt.split(";")[0].split(",")
        rest = fmt[len(fmt.split(";")[0]):]
        for i in range(len(cols)):
            yield dict(spec, fmt=",".join(cols[:i] + cols[i + 1:]) + rest)


def simplify(trace):
    """shrink candidates beyond dropping ops: smaller objects, smaller configurations, plainer requests"""
    from ..models.color_model import flatten
    for j, spec in enumerate(trace["objs"]):
        if spec["kind"] in ("table", "recfmt"):
            for cand in _simplify_table(spec):
                if spec["kind"] == "recfmt" and not cand.get("records"):
                    continue
                yield dict(trace, objs=trace["objs"][:j] + [cand] + trace["objs"][j + 1:])
        elif spec["kind"] == "pp" and spec["value"] != [1, "a"]:
            yield dict(trace, objs=trace["objs"][:j] + [dict(spec, value=[1, "a"])] + trace["objs"][j + 1:])
    for j, init in enumerate(trace["inits"]):
        flat = flatten(init)
        for k in sorted(flat):
            rest = {a: b for a, b in flat.items() if a != k}
            yield dict(trace, inits=trace["inits"][:j] + [rest] + trace["inits"][j + 1:])
    for j, en in enumerate(trace["enums"]):
        if len(en["values"]) > 1:
            for i in range(len(en["values"])):
                yield dict(trace, enums=trace["enums"][:j] + [dict(en, values=en["values"][:i] + en["values"][i + 1:])]
                           + trace["enums"][j + 1:])
    for i, op in enumerate(trace["ops"]):
        for key, plain in (("no_color", False), ("palette", None), ("how", "str")):
            if key in op and op[key] != plain:
                yield dict(trace, ops=trace["ops"][:i] + [dict(op, **{key: plain})] + trace["ops"][i + 1:])
        if op.get("op") == "conf_add" and len(op["batch"]) > 1:
            for k in sorted(op["batch"]):
                nb = {a: b for a, b in op["batch"].items() if a != k}
                yield dict(trace, ops=trace["ops"][:i] + [dict(op, batch=nb)] + trace["ops"][i + 1:])
    if trace.get("id_policy") != "never":
        yield dict(trace, id_policy="never")


# --------------------------------------------------------------------------
# execution

class ConfModel:
    __slots__ = ("init_idx", "no_color", "batches", "version", "conf")

    def __init__(self, init_idx, no_color, conf):
        self.init_idx = init_idx
        self.no_color = no_color
        self.batches = []
        self.version = 0
        self.conf = conf          # the real object (None once the world dropped its reference)

    def spec(self, inits, no_color_override=None):
        return {"init": inits[self.init_idx] if self.init_idx is not None else {},
                "no_color": self.no_color if no_color_override is None else no_color_override,
                "batches": [dict(b) for b in self.batches]}


class Task:
    __slots__ = ("r", "cm", "version", "spec_idx", "mode", "lines", "it", "started_at", "interleaved", "obj_slot",
                 "conf_snapshot", "late")

    def __init__(self, r, cm, spec_idx, mode, started_at, conf_snapshot):
        self.r = r
        self.cm = cm
        self.version = cm.version
        self.spec_idx = spec_idx
        self.mode = mode
        self.lines = []
        self.it = None
        self.started_at = started_at
        self.interleaved = 0
        self.conf_snapshot = conf_snapshot
        self.late = False

    def ctx(self):
        return (self.spec_idx, self.conf_snapshot, self.mode)


class World:
    def __init__(self, trace, log):
        from ak import color
        self.color = color
        self.trace = trace
        self.log = log
        self.inits = trace["inits"]
        self.specs = list(trace["objs"])    # grows: a re-formatted table gets the description of its fresh equal
        self.enums = {}
        self.decimals = 2
        self.confs = {}        # slot -> ConfModel
        self.objs = {}         # slot -> (Built, spec index)
        self.tasks = {}
        self.global_cm = ConfModel(None, False, color.get_global_colors_config())
        self.opno = 0
        self.obj_confs_used = {}     # obj slot -> set of conf model ids used so far
        self.dropped = 0
        self.stats = {"renders_checked": 0, "renders_indeterminate": 0, "tasks_completed": 0, "tasks_abandoned": 0,
                      "task_steps": 0, "tasks_interleaved": 0, "gc_runs": 0, "conf_new": 0, "conf_dropped": 0,
                      "conf_global": 0, "conf_add": 0, "touch": 0, "obj_new": 0, "after_other_conf": 0,
                      "after_drop": 0, "nocolor_checked": 0, "lines_vs_whole": 0, "plain_checked": 0,
                      "ref_errors_agreed": 0, "tbl_refmt": 0, "tbl_remove": 0, "tbl_rendered_then_changed": 0,
                      "tbl_siblings": 0, "tbl_sibling_of_rendered": 0, "lines_looked_at_late": 0}
        for k in ("table", "pp", "recfmt", "ghist", "hdoc", "ppwrap", "userbox", "usernote"):
            self.stats["kind." + k] = 0

    def sut(self, what, fn, *a, **kw):
        try:
            return fn(*a, **kw)
        except Violation:
            raise
        except Exception as e:
            raise Violation("render", f"{what}-raised-{type(e).__name__}", f"{what}: {e!r}")

    def guarded(self, what, ctx, fn, *a, **kw):
        """call into repository code on behalf of a rendering.  A failure that the pristine process
        reproduces for the same object/configuration/mode is a property of the input, not of the
        history (C10 is about purity): it ends the rendering and is counted.  A failure that only
        happens with history is a violation."""
        try:
            return fn(*a, **kw)
        except Violation:
            raise
        except Exception as e:
            if isinstance(e, rw.ro.TransientError):
                # injected fault: a cell value was not ready; the caller catches the error, the rendering is over
                self.stats["transient_value_errors"] = self.stats.get("transient_value_errors", 0) + 1
                raise _Agreed()
            spec_idx, conf_snapshot, mode = ctx
            ref = self.reference(spec_idx, conf_snapshot, mode)
            if "error" in ref and ref["error"].split(":")[0] == type(e).__name__:
                self.stats["ref_errors_agreed"] += 1
                raise _Agreed()
            raise Violation("render", f"{what}-raised-{type(e).__name__}-only-with-history",
                            f"{what}: {e!r}; pristine process: {str(ref)[:200]}")

    def enum(self, i):
        if i not in self.enums:
            self.enums[i] = self.sut("PPEnumFieldType", rw.ro.build_enum, self.trace["enums"][i])
        return self.enums[i]

    def conf_model(self, slot):
        if slot == "global":
            return self.global_cm
        return self.confs.get(slot)

    # -- reference
    def reference(self, spec_idx, cm_spec, mode, no_color=None, how_ref="str"):
        spec = self.specs[spec_idx]
        if spec.get("dec_col"):
            spec = dict(spec, decimals_now=self.decimals)
        m = {"via": mode["via"], "no_color": mode["no_color"] if no_color is None else no_color,
             "palette": mode.get("palette"), "rec": mode.get("rec", 0), "how_ref": how_ref}
        enums = {}
        if spec.get("types"):
            for i in set(spec["types"].values()):
                enums[str(i)] = self.trace["enums"][i]
        return rw.reference({"kind": "render", "obj": spec, "enums": enums, "conf": cm_spec, "mode": m})

    def start(self, op):
        """request a rendering -> Task (palette resolved now)"""
        ent = self.objs.get(op["obj"])
        cm = self.conf_model(op["conf"])
        if ent is None or cm is None or (cm.conf is None):
            return None
        built, spec_idx = ent
        kind = built.kind
        via = "global" if op["conf"] == "global" else "explicit"
        pal = op.get("palette")
        if pal and pal not in PALETTES_FOR[kind]:
            pal = None
        if pal and pal.get("synced") and (via != "global" or op.get("op") != "render"):
            pal = None
        if kind in GLOBAL_ONLY:
            if via != "global":
                return None
            mode = {"via": "global", "no_color": False, "palette": None}
            if op.get("via_repr") and kind == "ppwrap":
                mode["via_repr"] = True
        else:
            mode = {"via": via, "no_color": bool(op.get("no_color")), "palette": pal, "rec": op.get("rec", 0)}
            if op.get("edit_lines"):
                mode["edit_lines"] = True
        conf_arg = None if via == "global" else cm.conf
        snapshot = cm.spec(self.inits)
        r = self.guarded(f"request-{kind}", (spec_idx, snapshot, mode), rw.ro.start_rendering, built, conf_arg, mode)
        t = Task(r, cm, spec_idx, mode, self.opno, snapshot)
        t.obj_slot = op["obj"]
        self.stats["kind." + kind] += 1
        used = self.obj_confs_used.setdefault(op["obj"], set())
        if used and id(cm) not in used:
            self.stats["after_other_conf"] += 1
        if self.dropped:
            self.stats["after_drop"] += 1
        used.add(id(cm))
        return t

    def check_text(self, t, text, how):
        """text: what the world produced for task t; how: str | plain | lines"""
        if t.cm.version != t.version:
            self.stats["renders_indeterminate"] += 1
            return
        kind = self.specs[t.spec_idx]["kind"]
        nc_conf = t.conf_snapshot["no_color"]
        want_plain = how == "plain" or t.mode["no_color"] or nc_conf
        # O1: no escape character in no_color output
        if want_plain and sgr.has_escape(text):
            raise Violation("O1", "escape-in-no_color-output",
                            f"{kind} rendering ({how}, no_color={t.mode['no_color']}, conf no_color={nc_conf}) contains an escape: {text[:200]!r}")
        if kind in GLOBAL_ONLY or how == "dunder":
            nc_spec = dict(t.conf_snapshot, no_color=True)
            ref_nc = self.reference(t.spec_idx, nc_spec, t.mode, how_ref="dunder" if how == "dunder" else "str")
        else:
            ref_nc = self.reference(t.spec_idx, t.conf_snapshot, t.mode, no_color=True)
        ref_c = None
        if not want_plain:
            ref_c = self.reference(t.spec_idx, t.conf_snapshot, t.mode, how_ref="dunder" if how == "dunder" else "str")
        for ref in (ref_nc, ref_c):
            if ref is not None and "error" in ref:
                if ref["error"].startswith("harness"):
                    raise RuntimeError(ref["error"])
                raise Violation("reference", "pristine-rendering-raised", ref["error"])
        # O2: colours never change layout
        if sgr.strip(text) != ref_nc["text"]:
            raise Violation("O2", "layout-differs-from-no_color",
                            f"{kind} ({how}): stripped rendering differs from the no_color rendering: "
                            + first_diff(sgr.strip(text), ref_nc["text"]))
        if sgr.has_escape(ref_nc["text"]):
            raise Violation("O1", "escape-in-no_color-output", f"pristine no_color rendering of {kind} contains an escape")
        # O3: no memory
        if ref_c is not None:
            # lines yielded one by one may differ from the joined whole in escape structure only (a
            # zero-length coloured run, two equal-coloured runs not merged): compare what is shown
            same = (sgr.canon(text) == sgr.canon(ref_c["text"])) if how == "lines" else (text == ref_c["text"])
            if not same:
                raise Violation("O3", "differs-from-pristine-rendering",
                                f"{kind} ({how}) after history differs from the same rendering in a fresh process: "
                                + first_diff(text, ref_c["text"]))
        else:
            self.stats["nocolor_checked"] += 1
        if how == "plain":
            self.stats["plain_checked"] += 1
        self.stats["renders_checked"] += 1


def _line_with_format_probe(w, t, i, line):
    """a consumer that centres the first lines it gets (f"{line:^N}"): colours never change the layout of the
    formatted line either"""
    if i < 3 and hasattr(line, "plain_text"):
        plain = line.plain_text()
        if "\n" not in plain and "\r" not in plain:
            spec = f"^{len(plain) + 3 + i}"
            got = format(line, spec)
            w.stats["formatted_lines"] = w.stats.get("formatted_lines", 0) + 1
            if sgr.strip(got) != format(plain, spec):
                raise Violation("O2", "formatted-line-layout-differs-from-plain",
                                f"format(line, {spec!r}) gives {sgr.strip(got)!r}, the plain line gives {format(plain, spec)!r}")
    text = rw.ro.line_to_str(line)
    if t.mode.get("edit_lines") and hasattr(line, "chunks") and not t.r.built.spec.get("keep_lines"):
        # (not the lines of a user's pane that keeps and re-yields its own line objects: those stay the pane's)
        # ... and then goes on working with the line object it was handed (appends a mark, in place): a line is the
        # consumer's own object once it has been yielded, later lines must not know
        line += " <seen>"
        w.stats["yielded_lines_edited"] = w.stats.get("yielded_lines_edited", 0) + 1
    return text


def first_diff(a, b):
    la, lb = a.split("\n"), b.split("\n")
    for i, (x, y) in enumerate(zip(la, lb)):
        if x != y:
            return f"line {i}: {x!r} != {y!r}"
    return f"{len(la)} lines != {len(lb)} lines"


def execute(trace, rng):
    log = EventLog()
    gc.disable()
    from ak import color
    alloc = rw.install_id_seam(trace.get("id_policy", "always"), trace.get("seed", 0) ^ 0x1D)
    w = World(trace, log)
    status = {"status": OK}
    try:
        for n, op in enumerate(trace["ops"]):
            w.opno = n
            k = op["op"]
            for t in w.tasks.values():
                if t.it is not None:
                    t.interleaved += 1
            try:
                _do_op(w, trace, op, n, k, log, color)
            except _Agreed:
                if "task" in op:
                    w.tasks.pop(op["task"], None)
                log.add("agreed-error", n, k)
                continue
            log.add("op", n, k)
    except Violation as v:
        status = violation_result(v)
    return _finish(w, trace, status, log, alloc)


def _do_op(w, trace, op, n, k, log, color):
    if k == "conf_new":
        init = trace["inits"][op["init"] % len(trace["inits"])]
        conf = w.sut("ColorsConfig", color.ColorsConfig, init, no_color=bool(op.get("no_color")))
        w.confs[op["slot"]] = ConfModel(op["init"] % len(trace["inits"]), bool(op.get("no_color")), conf)
        w.stats["conf_new"] += 1
    elif k == "conf_drop":
        cm = w.confs.pop(op["slot"], None)
        if cm is not None:
            if cm is not w.global_cm:
                cm.conf = None
            w.dropped += 1
            w.stats["conf_dropped"] += 1
    elif k == "conf_global":
        cm = w.confs.get(op["slot"])
        if cm is None or cm.conf is None:
            return
        w.sut("set_global_colors_config", color.set_global_colors_config, cm.conf)
        w.global_cm = cm
        w.stats["conf_global"] += 1
    elif k == "conf_global_none":
        w.sut("set_global_colors_config(None)", color.set_global_colors_config, None)
        w.global_cm = ConfModel(None, False, color.get_global_colors_config())
        w.stats["conf_global"] += 1
    elif k == "conf_add":
        cm = w.conf_model(op["slot"])
        if cm is None or cm.conf is None:
            return
        w.sut("add_new_items", cm.conf.add_new_items, dict(op["batch"]), "user")
        cm.batches.append(dict(op["batch"]))
        cm.version += 1
        w.stats["conf_add"] += 1
    elif k == "touch":
        cm = w.conf_model(op["slot"])
        cls = rw.ro.TOUCHABLE.get(op["cls"])
        if cm is None or cm.conf is None or cls is None:
            return
        if op.get("synced") and op["cls"] in rw.ro.SYNCABLE:
            w.sut(f"{op['cls']}(synced=True)", cls, synced=True)
        else:
            w.sut(f"{op['cls']}(conf)", cls, cm.conf, bool(op.get("no_color")))
        w.stats["touch"] += 1
    elif k == "gc":
        gc.collect()
        w.stats["gc_runs"] += 1
    elif k == "obj_new":
        sib = op.get("sib")
        if sib is not None:
            src = w.objs.get(sib["of"])
            eff = sibling_spec(w.specs[src[1]], sib) if (src is not None and sib["of"] != op["slot"]) else None
            if eff is not None:
                skip = eff.pop("skip_used", None)
                ctx = (len(w.specs), {"init": {}, "no_color": False, "batches": []},
                       {"via": "explicit", "no_color": True, "palette": None})
                w.specs.append(eff)
                built = w.guarded("build-sibling-table", ctx, rw.ro.build_sibling, src[0], eff, sib.get("limits"), skip)
                w.objs[op["slot"]] = (built, len(w.specs) - 1)
                w.obj_confs_used.pop(op["slot"], None)
                w.stats["obj_new"] += 1
                w.stats["tbl_siblings"] += 1
                if w.obj_confs_used.get(sib["of"]):
                    w.stats["tbl_sibling_of_rendered"] += 1
                return
        j = op["spec"] % len(trace["objs"])
        spec = trace["objs"][j]
        enums = {}
        if spec.get("types"):
            for i in set(spec["types"].values()):
                enums[i] = w.enum(i)
        built = w.guarded(f"build-{spec['kind']}", (j, {"init": {}, "no_color": False, "batches": []},
                                                    {"via": "explicit", "no_color": True, "palette": None}),
                          rw.ro.build_object, spec, enums)
        w.objs[op["slot"]] = (built, j)
        w.obj_confs_used.pop(op["slot"], None)
        w.stats["obj_new"] += 1
    elif k in ("tbl_refmt", "tbl_remove"):
        ent = w.objs.get(op["obj"])
        if ent is None:
            return
        built, idx = ent
        new = apply_tbl_op(w.specs[idx], op)
        if new is None:
            return
        # renderings of this table still in flight end here (what they show past a format change is not stated)
        for slot in [s for s, t in w.tasks.items() if getattr(t, "obj_slot", None) == op["obj"]]:
            t = w.tasks.pop(slot)
            if t.it is not None and hasattr(t.it, "close"):
                w.sut("close(iterator)", t.it.close)
            w.stats["tasks_abandoned"] += 1
        ctx = (len(w.specs), {"init": {}, "no_color": False, "batches": []},
               {"via": "explicit", "no_color": True, "palette": None})
        w.specs.append(new)
        if k == "tbl_refmt" and op.get("via_fmt_obj") and not op.get("cols") and op.get("lim"):
            w.guarded("table.fmt.set_limits", ctx, built.obj.fmt.set_limits, tuple(op["lim"]))
            w.stats["limits_via_fmt_obj"] = w.stats.get("limits_via_fmt_obj", 0) + 1
        elif k == "tbl_refmt":
            fs = tbl_fmt_string(op)
            if op.get("via_prop"):
                w.guarded("table.fmt = ...", ctx, setattr, built.obj, "fmt", fs)
            else:
                w.guarded("table.set_fmt", ctx, built.obj.set_fmt, fs)
        elif op.get("via_fmt_obj"):
            w.guarded("table.fmt.remove_columns", ctx, built.obj.fmt.remove_columns, list(op["names"]))
        else:
            w.guarded("table.remove_columns", ctx, built.obj.remove_columns, list(op["names"]))
        w.objs[op["obj"]] = (built, len(w.specs) - 1)
        w.stats[k] += 1
        if w.obj_confs_used.get(op["obj"]):
            w.stats["tbl_rendered_then_changed"] += 1
    elif k == "app_setting":
        rw.ro.APP_DECIMALS.decimals = op["decimals"]
        w.decimals = op["decimals"]
        # renderings in flight were started under the old setting: what they show from now on is not defined
        for cm in list(w.confs.values()) + [w.global_cm]:
            cm.version += 1
        # tables that were printed keep the column widths of their first print (by design): the application makes
        # new tables after the change
        for slot in [sl for sl, (b, j) in w.objs.items() if w.specs[j].get("dec_col")]:
            del w.objs[slot]
        w.stats["app_settings_changed"] = w.stats.get("app_settings_changed", 0) + 1
    elif k == "env":
        import os
        if op.get("value") is None:
            os.environ.pop(op["name"], None)
        else:
            os.environ[op["name"]] = op["value"]
        w.stats["env_changes"] = w.stats.get("env_changes", 0) + 1
    elif k == "render":
        t = w.start(op)
        if t is None:
            return
        how = op.get("how", "str")
        kind = w.specs[t.spec_idx]["kind"]
        if how == "lines" and kind in ("recfmt", "ppwrap"):
            how = "str"       # a formatted record / a wrapper has no line structure
        if how == "dunder" and (kind in ("recfmt", "pp", "hdoc") or t.mode["via"] != "global"
                                or t.mode["no_color"] or t.mode.get("palette")):
            how = "str"
        if how == "lines":
            if op.get("poke") and t.r.res is not None and kind in ("pp", "table", "ghist"):
                # the result is used as a text first (so its whole text exists) and is walked line by line then
                w.guarded("poke-" + op["poke"], t.ctx(), rw.ro.poke, t.r, op["poke"])
                w.stats["pokes"] = w.stats.get("pokes", 0) + 1
                w.stats["lines_after_whole"] = w.stats.get("lines_after_whole", 0) + 1
            if op.get("late"):
                # the consumer collects the line objects and looks at them when all have been produced
                lines = w.guarded("iterate-lines", t.ctx(),
                                  lambda: [rw.ro.line_to_str(x) for x in list(rw.ro.line_iter(t.r))])
                w.stats["lines_looked_at_late"] += 1
            else:
                lines = w.guarded("iterate-lines", t.ctx(),
                                  lambda: [_line_with_format_probe(w, t, i, x) for i, x in enumerate(rw.ro.line_iter(t.r))])
            text = "\n".join(lines)
            whole = w.guarded("whole-text", t.ctx(), rw.ro.whole_text, t.r, "str")
            if sgr.canon(text) != sgr.canon(whole):
                raise Violation("O4", "lines-differ-from-whole",
                                f"{kind}: joined lines differ from the whole text of the same result: "
                                + first_diff(text, whole))
            w.stats["lines_vs_whole"] += 1
            w.check_text(t, text, "lines")
        else:
            if op.get("poke") and how in ("str", "plain") and t.r.res is not None and kind in ("pp", "table", "ghist"):
                # the result is used as a text first (length, +, slices, fixed_len, format ...): it memoises its
                # text, and must hand out the very same text afterwards
                w.guarded("poke-" + op["poke"], t.ctx(), rw.ro.poke, t.r, op["poke"])
                w.stats["pokes"] = w.stats.get("pokes", 0) + 1
            text = w.guarded("whole-text", t.ctx(), rw.ro.whole_text, t.r, how)
            w.check_text(t, text, how)
            if op.get("poke") and kind == "recfmt" and t.r.res is not None and hasattr(t.r.res, "columns"):
                # the column texts of a formatted record belong to the caller: editing them in place is its business
                # and must not show anywhere else, now or later
                w.guarded("poke-columns", t.ctx(), rw.ro.poke_columns, t.r)
                w.stats["pokes"] = w.stats.get("pokes", 0) + 1
                w.stats["record_columns_edited"] = w.stats.get("record_columns_edited", 0) + 1
        log.add("render", n, hashlib.blake2b(text.encode(), digest_size=6).hexdigest())
    elif k == "task_start":
        ent0 = w.objs.get(op["obj"])
        if ent0 is not None and ent0[0].kind == "ppwrap":
            return      # str(wrapper) renders when it is called: there is no request to defer
        t = w.start(op)
        if t is None:
            return
        old = w.tasks.pop(op["task"], None)
        if old is not None and old.it is not None:
            old.it.close() if hasattr(old.it, "close") else None
            w.stats["tasks_abandoned"] += 1
        t.late = bool(op.get("late"))
        w.tasks[op["task"]] = t
    elif k == "task_step":
        t = w.tasks.get(op["task"])
        if t is None:
            return
        if t.it is None:
            t.it = w.guarded("iter(result)", t.ctx(), rw.ro.line_iter, t.r)
        for _ in range(op.get("n", 1)):
            try:
                line = w.guarded("next(line)", t.ctx(), _next, t.it)
            except StopIteration:
                break
            if line is _END:
                _finish_task(w, t, op["task"], log, n)
                break
            t.lines.append(line if t.late else rw.ro.line_to_str(line))
            w.stats["task_steps"] += 1
    elif k == "task_drain":
        t = w.tasks.get(op["task"])
        if t is None:
            return
        if t.it is None:
            t.it = w.guarded("iter(result)", t.ctx(), rw.ro.line_iter, t.r)
        while True:
            line = w.guarded("next(line)", t.ctx(), _next, t.it)
            if line is _END:
                break
            t.lines.append(line if t.late else rw.ro.line_to_str(line))
            w.stats["task_steps"] += 1
        _finish_task(w, t, op["task"], log, n)
    elif k == "task_whole":
        t = w.tasks.get(op["task"])
        if t is None:
            return
        how = op.get("how", "str")
        text = w.guarded("whole-text", t.ctx(), rw.ro.whole_text, t.r, how)
        w.check_text(t, text, how)
        log.add("whole", n, hashlib.blake2b(text.encode(), digest_size=6).hexdigest())
    elif k == "task_poke":
        t = w.tasks.get(op["task"])
        if t is None or t.r.res is None or w.specs[t.spec_idx]["kind"] not in ("pp", "table", "ghist"):
            return
        w.guarded("poke-" + op["what"], t.ctx(), rw.ro.poke, t.r, op["what"])
        w.stats["pokes"] = w.stats.get("pokes", 0) + 1
    elif k == "task_abandon":
        t = w.tasks.pop(op["task"], None)
        if t is None:
            return
        if t.it is not None and hasattr(t.it, "close"):
            w.sut("close(iterator)", t.it.close)
        w.stats["tasks_abandoned"] += 1


def _finish(w, trace, status, log, alloc):
    st = dict(w.stats)
    st["fault.rendering_raised_midway"] = st["ref_errors_agreed"]
    st["fault.cell_value_not_ready"] = st.get("transient_value_errors", 0)
    st["fault.line_task_abandoned"] = st["tasks_abandoned"]
    st["fault.gc_at_scheduled_point"] = st["gc_runs"]
    st["fault.configuration_dropped"] = st["conf_dropped"]
    st["fault.id_reused"] = alloc.reused
    st["id_calls"] = alloc.calls
    st["id_reused"] = alloc.reused
    st["ref_requests"] = rw.ref_requests()
    st["idpolicy." + str(trace.get("id_policy"))] = 1
    nontrivial = bool(w.stats["renders_checked"] and (w.stats["after_other_conf"] or w.stats["after_drop"]
                                                       or w.stats["tasks_interleaved"]))
    h = hashlib.blake2b(json.dumps([trace["enums"], trace["inits"], trace["objs"], trace["ops"],
                                    trace.get("id_policy")], sort_keys=True).encode(), digest_size=8).hexdigest()
    status.update({"digest": log.digest(), "stats": st, "nontrivial": nontrivial, "case": h,
                   "sim_steps": len(trace["ops"]) + w.stats["task_steps"]})
    return status


_END = object()


class _Agreed(Exception):
    """the rendering failed exactly as it fails without history"""


def _next(it):
    try:
        return next(it)
    except StopIteration:
        return _END


def _finish_task(w, t, slot, log, n):
    w.tasks.pop(slot, None)
    if t.late:
        t.lines = w.guarded("str(line) after the last line", t.ctx(), lambda: [rw.ro.line_to_str(x) for x in t.lines])
        w.stats["lines_looked_at_late"] += 1
    kind = w.specs[t.spec_idx]["kind"]
    text = "\n".join(t.lines)
    if t.interleaved:
        w.stats["tasks_interleaved"] += 1
    w.stats["tasks_completed"] += 1
    if kind == "recfmt":
        # one "line": the record's ch_text(); compared through the whole-text path instead
        text = w.guarded("whole-text", t.ctx(), rw.ro.whole_text, t.r, "str")
        w.check_text(t, text, "str")
    else:
        w.check_text(t, text, "lines")
    log.add("task", n, hashlib.blake2b(text.encode(), digest_size=6).hexdigest())
