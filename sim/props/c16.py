"""C16 - request ids are unique per connection under concurrent use.

World: 1-2 underlying connections reached through several wrappers, 2-4
simulated threads issuing requests; the scheduler pre-empts at bytecode
granularity inside ak.conn_http / ak.mcaller_http / ak.mcaller.  Oracle over
the history of requests seen by the transport."""

import hashlib
import json

from .. import httpworld as hw
from ..core import EventLog, Violation, OK, violation_result
from ..threadsim import ThreadSim

ID = "C16"
ENGINE = "threadsim"
SHRINK_LISTS = ("schedule", "ops")
WATCH_FILES = ("ak/conn_http.py", "ak/mcaller_http.py", "ak/mcaller.py")

REAL_VS_STUB = {'real': ['ak.conn_http', 'ak.mcaller_http', 'ak.mcaller (instrumented, every bytecode instruction a pre-emption point)', 'json, urllib.parse, urllib.request.Request, base64, http.client exceptions (atomic steps)'], 'stub': ['the network: urllib.request.OpenerDirector.open -> in-process transport with latency and fault injection', 'threading.Lock/RLock as seen by ak.conn_http -> simulator locks', 'thread scheduling -> seeded baton scheduler', 'random in ak.conn_http -> PRNG derived from the run seed', 'ssl.SSLContext.load_default_certs -> no-op', 'process-global state -> one fresh forked process per run']}

ASSUMPTIONS = ["pre-emption is possible before every bytecode instruction of ak.conn_http / ak.mcaller_http / ak.mcaller and nowhere inside stdlib calls (a superset of CPython's switch points for the repository code, atomic for stdlib)", 'the sequence number of an id is its last dash-separated field', 'a request counts when it reaches urllib.request.OpenerDirector.open', 'sampling: a clean batch is evidence over the explored schedules, not a proof']

RULE = ("each run = one seeded world (rarely preceded by ~10000 sequential warm-up requests so that the 4-digit "
        "part of the ids wraps around; 1-2 underlying connections, 2-6 wrappers incl. auth/prefix/"
        "method-caller layers, 2-4 threads x 1-4 requests, post-send transport faults) executed under one "
        "seeded schedule (policy drawn per run: uniform p, targeted, quantum, PCT, park) with a pre-emption point "
        "before every bytecode instruction of ak.conn_http, ak.mcaller_http, ak.mcaller. A run is "
        "non-trivial iff at least one pre-emption happened while the request-id lock was held or inside "
        "_generate_request_id, or a thread actually blocked on the lock; distinct = distinct digest of "
        "(world, ops, pre-emption record list).")

VERBS = ("get", "post", "put", "delete", "patch")
TARGETS = ["_generate_request_id", "do_request", "get_conn", "__init__"]


def init_zygote():
    hw.init_zygote()


def batch_meta():
    from ..threadsim import cover_totals
    return {"pp_totals": cover_totals()}


# --------------------------------------------------------------------------

def gen_world(rng, max_wrappers=5):
    n_impl = 2 if rng.random() < 0.3 else 1
    impls = []
    for i in range(n_impl):
        impls.append({"addr": f"http://h{i}.test:80{i}0", "ids": not (i == 1 and rng.random() < 0.3)})
    if n_impl == 2 and rng.random() < 0.4:
        # two connections created independently to the same address: two sequences of their own
        impls[1]["addr"] = impls[0]["addr"]
    wrappers = []
    for i in range(n_impl):
        wrappers.append({"kind": "base", "impl": i, "parent": None, "auth": False})
    for _ in range(rng.randint(1, max_wrappers)):
        mcs = [j for j, w in enumerate(wrappers) if w["kind"].startswith("mcaller")]
        if mcs and rng.random() < 0.25:
            # a clone of a method caller (optionally with new credentials or another adapter): still the same
            # underlying connection
            p = rng.choice(mcs)
            pw = wrappers[p]
            how = rng.choice(["none", "prefix", "auth"] if not pw["auth"] else ["none", "prefix"])
            wrappers.append({"kind": "mcaller_clone", "impl": pw["impl"], "parent": p, "how": how,
                             "auth": pw["auth"] or how == "auth", "idsetter": pw.get("idsetter"),
                             "failing": bool(pw.get("failing")), "nested": int(pw.get("nested") or 0)})
            continue
        cands = [j for j, w in enumerate(wrappers) if not w["kind"].startswith("mcaller")]
        p = rng.choice(cands)
        pw = wrappers[p]
        kinds = ["plain", "prefix", "mcaller", "mcaller_noprefix"]
        if not pw["auth"]:
            kinds += ["bauth", "token", "client"]
        if not pw.get("idsetter") and rng.random() < 0.5:
            kinds += ["idsetter"]
        if rng.random() < 0.5:
            kinds += ["failing"]
        if not pw.get("nested") and rng.random() < 0.4:
            kinds += ["nested"]
        if rng.random() < 0.25:
            # an application adapter that sends some of the requests to a mirror host (req_args.address):
            # still the same connection, the same sequence of ids
            kinds += ["retarget"]
        kind = rng.choice(kinds)
        w = {"kind": kind, "impl": pw["impl"], "parent": p,
             "auth": pw["auth"] or kind in ("bauth", "token", "client"),
             "idsetter": pw.get("idsetter"), "failing": bool(pw.get("failing")) or kind == "failing",
             "nested": int(pw.get("nested") or 0) + (1 if kind == "nested" else 0)}
        if kind == "idsetter":
            # the caller supplies its request ids through an adapter of its own
            w["idsetter"] = {"mode": rng.choice(["always", "default"]), "tag": f"adp{len(wrappers)}"}
        if kind in ("prefix", "mcaller"):
            w["prefix"] = rng.choice(["/p", "/api/", "/v1", "/x/y"])
        wrappers.append(w)
    if n_impl == 2 and not any(w.get("parent") == 1 for w in wrappers) and rng.random() < 0.5:
        # the application sets up its second, independent connection with the adapters of a connection it has
        # already: HttpConn(other_address, adapters=conn.adapters) - the public attribute, the very list object
        cands = [j for j, w in enumerate(wrappers) if w["impl"] == 0 and j != 0 and not w["kind"].startswith("mcaller")
                 and not w.get("failing") and not w.get("nested")]
        if cands:
            j = rng.choice(cands)
            wrappers[1].update({"adopt": j, "auth": wrappers[j]["auth"], "idsetter": wrappers[j].get("idsetter")})
    return {"impls": impls, "wrappers": wrappers}


def gen_policy(rng, est_steps):
    pol = _gen_policy(rng, est_steps)
    # timed waits on a held lock: how often the simulator lets them expire (slow holder / clock jump)
    pol["tw"] = {"pct": rng.choice([0, 30, 70, 100]), "salt": rng.randrange(1 << 30)}
    # caller threads that are not threading.Thread objects (started through _thread: not counted by active_count())
    pol["raw"] = rng.random() < 0.3
    return pol


def _gen_policy(rng, est_steps):
    kind = rng.choice(["uniform", "uniform", "targeted", "targeted", "quantum", "pct", "park"])
    if kind == "park":
        return {"kind": kind, "targets": TARGETS[: rng.randint(1, len(TARGETS))],
                "p_in": rng.choice([0.02, 0.1, 0.3]), "p_out": rng.choice([0.0, 0.002]),
                "len": rng.choice([300, 1500, 6000])}
    if kind == "uniform":
        return {"kind": kind, "p": rng.choice([0.01, 0.05, 0.2, 0.5])}
    if kind == "targeted":
        return {"kind": kind, "targets": TARGETS[: rng.randint(1, len(TARGETS))],
                "p_in": rng.choice([0.2, 0.5, 0.8]), "p_out": rng.choice([0.0, 0.002, 0.01])}
    if kind == "quantum":
        return {"kind": kind, "q": rng.randint(1, 40)}
    d = rng.randint(1, 3)
    return {"kind": "pct", "change_points": sorted(rng.randrange(1, max(2, est_steps)) for _ in range(d))}


def gen_net(rng, fault_rate, kinds):
    net = {"lat": rng.choice([0, 0, 1, 1, 2, 3, 5])}
    if kinds and rng.random() < fault_rate:
        k = rng.choice(kinds)
        net["fault"] = k
        if k == "http_error":
            net["code"] = rng.choice([400, 401, 404, 500, 503])
            net["body"] = rng.choice(["", "{\"err\": 1}", "oops"])
    else:
        net["body"] = rng.choice(["", "{}", "{\"a\": 1}", "[1, 2]", "\"s\""])
    return net


def generate(rng, tier):
    big = tier != "quick"
    world = gen_world(rng, max_wrappers=7 if big else 5)
    nthreads = rng.randint(2, 6 if big else 4)
    fault_free = rng.random() < 0.25
    fault_rate = 0.0 if fault_free else rng.choice([0.05, 0.15, 0.3])
    kinds = [k for k in hw.FAULT_KINDS if rng.random() < 0.6]
    ops = []
    k = 0
    nw = len(world["wrappers"])
    for t in range(nthreads):
        for _ in range(rng.randint(1, 8 if big else 4)):
            op = {"op": "req", "k": k, "t": t, "w": rng.randrange(nw),
                  "verb": rng.choice(VERBS), "path": rng.choice(["/a", "/b/c", "/", "/q"]),
                  "own_id": (f"caller-{k}" if rng.random() < 0.2 else None),
                  "net": gen_net(rng, fault_rate, kinds)}
            if op["own_id"] is not None and rng.random() < 0.08:
                op["own_id"] = ""            # an id that is there but empty (e.g. forwarded as received)
            elif op["own_id"] is not None and rng.random() < 0.15:
                op["own_id"] = rng.choice([f"trace {k} ", f" id{k}", f"a\tb {k}"])      # blanks are part of the id
            elif op["own_id"] is not None and rng.random() < 0.15:
                op["own_id"] = "@future"
            elif op["own_id"] is not None and rng.random() < 0.15:
                # ids that look like something with a canonical spelling (UUIDs, hex digests): still opaque text
                h = f"{k:04x}" + "abcdef0123456789ABCDEF0123456789"[:28]
                op["own_id"] = rng.choice([
                    h, h.upper(), f"{h[:8]}-{h[8:12]}-{h[12:16]}-{h[16:20]}-{h[20:32]}".upper(),
                    "{" + f"{h[:8]}-{h[8:12]}-{h[12:16]}-{h[16:20]}-{h[20:32]}" + "}",
                    "urn:uuid:" + f"{h[:8]}-{h[8:12]}-{h[12:16]}-{h[16:20]}-{h[20:32]}".lower(), f"0x{k:X}", f"{k:08d}"])
            if op["own_id"] is not None and rng.random() < 0.2:
                # the id is not a plain str: header values may be bytes (the package's own adapters send such)
                op["own_id_form"] = rng.choice(["bytes", "strsub"])
            if op["own_id"] is not None and rng.random() < 0.25:
                # the caller's headers are a mapping of the caller's own type (case-insensitive names)
                op["hdr_ci"] = True
            if rng.random() < 0.3:
                op["hdr"] = {"X-Other": f"v{k}"}
            elif rng.random() < 0.25 and op["own_id"] is None:
                # the caller re-uses ONE headers dict object for several requests (also across threads)
                op["hdr_shared"] = rng.randrange(2)
            if rng.random() < 0.2:
                op["adfail"] = rng.choice(["pre", "post"])       # honoured by 'failing' layers only
            if world["wrappers"][op["w"]].get("nested") and op["net"].get("fault"):
                # the transport plan belongs to the op: it would hit the adapter's own nested request first
                op["net"] = {"lat": op["net"].get("lat", 0), "body": ""}
            if rng.random() < 0.2:
                # the thread first derives a fresh connection from the chosen one and sends through that
                op["derive"] = rng.choice(["plain", "prefix", "mcaller", "copy"])
            if rng.random() < 0.06:
                # the thread first attaches one more (do-nothing) adapter to the chosen connection with the public
                # add_adapter(): the connection, and all derived from it before and after, keep their one sequence
                # (or one that stamps an id of its own where the caller gave none: only requests through that very
                # connection object may ever carry it)
                op["late_adapter"] = rng.choice([True, "id"])
            ops.append(op)
            k += 1
    rng.shuffle(ops)
    if rng.random() < (0.008 if big else 0.006):
        # rarely: a long sequential warm-up through one wrapper, so that the concurrent part runs across the
        # point where the 4-digit part of the id wraps around (10000 requests)
        ops.insert(0, {"op": "burst", "k": k, "t": 0, "w": rng.randrange(nw), "n": 10000 - rng.randint(0, 3),
                       "verb": "get", "path": "/warm", "own_id": None, "net": {"lat": 0, "body": ""}})
    est = len(ops) * 420
    policy = gen_policy(rng, est)
    if ops and ops[0].get("op") == "burst" and rng.random() < 0.7:
        # the one moment such a run is about - the numbers pass a multiple of 10000 - comes once: most of these runs
        # use the schedule family that leaves a thread descheduled in the middle of the id generator
        policy.update({"kind": "park", "targets": TARGETS[:1], "p_in": rng.choice([0.01, 0.02, 0.05]), "p_out": 0.0,
                       "len": rng.choice([1500, 6000])})
    return {"world": world, "nthreads": nthreads, "ops": ops,
            "policy": policy, "debug_log": rng.random() < 0.2}


# --------------------------------------------------------------------------

def make_id_setter(cfg):
    RA = hw.conn_http.RequestAdapter

    class IdSetter(RA):
        """a user's adapter that provides the request id"""

        def process_req_args(self, req_args):
            if cfg["mode"] == "always" or "X-Request-ID" not in req_args.headers:
                req_args.headers["X-Request-ID"] = cfg["tag"]
    return IdSetter()


def make_retarget():
    RA = hw.conn_http.RequestAdapter

    class Retarget(RA):
        """a user's adapter (documented hook, calls super) that re-targets some requests to a mirror host"""

        def process_req_args(self, req_args):
            super().process_req_args(req_args)
            if req_args.path.endswith(("a", "/", "q")):
                req_args.address = "http://mirror.test:8181"
    return Retarget()


def build_world(spec):
    ch = hw.conn_http
    mh = hw.mcaller_http
    objs = []
    adopt_later = []
    for w in spec["wrappers"]:
        kind = w["kind"]
        if kind == "base":
            imp = spec["impls"][w["impl"]]
            if imp["ids"]:
                o = ch.HttpConn(imp["addr"])
            else:
                o = ch.HttpConn([imp["addr"], False])
            if w.get("adopt") is not None:
                adopt_later.append((len(objs), w))
        else:
            parent = objs[w["parent"]]
            if kind == "plain":
                o = ch.HttpConn(parent)
            elif kind == "prefix":
                o = ch.HttpConn(parent, adapters=ch.RequestAdapterAddPathPrefix(w["prefix"]))
            elif kind == "idsetter":
                o = ch.HttpConn(parent, adapters=make_id_setter(w["idsetter"]))
            elif kind == "retarget":
                o = ch.HttpConn(parent, adapters=make_retarget())
            elif kind == "failing":
                o = ch.HttpConn(parent, adapters=hw.make_adapter({"a": "fail"}, hw.make_adapter_classes()))
            elif kind == "nested":
                # every request through this layer first issues a request of its own through the base
                # connection of the same underlying connection (token refresh pattern)
                classes = hw.make_adapter_classes()
                o = ch.HttpConn(parent, adapters=classes[0].NestedCaller(objs[w["impl"]]))
            elif kind == "bauth":
                o = ch.BAuthConn(parent, "user", "pa:ss")
            elif kind == "token":
                o = ch.TokenAuthConn(parent, "tok123", "descr")
            elif kind == "client":
                o = ch.ClientAuthConn(parent, "cname", "cid", "csecret")
            elif kind in ("mcaller", "mcaller_noprefix"):
                pm = {"cmp": w["prefix"]} if kind == "mcaller" else {}
                comp = "cmp" if kind == "mcaller" else None

                class SimCaller(mh.MCallerHttp):
                    _HTTP_PREFIX_MAP = pm

                    @mh.method_http(None, comp)
                    def simcall(self, verb, path, kw):
                        """issue one request"""
                        return getattr(self.get_conn(), verb)(path, **kw)
                o = SimCaller(parent)
            elif kind == "mcaller_clone":
                how = w.get("how", "none")
                if how == "auth":
                    o = parent.clone(ch.BAuthConn.Adapter("clone-user", "pw"))
                elif how == "prefix":
                    o = parent.clone([ch.RequestAdapterAddPathPrefix("/cl")])
                else:
                    o = parent.clone()
            else:
                raise ValueError(kind)
        objs.append(o)
    for idx, w in adopt_later:
        imp = spec["impls"][w["impl"]]
        src = objs[w["adopt"] % len(objs)]
        src = src.http_conn if hasattr(src, "http_conn") else src
        conn_data = imp["addr"] if imp["ids"] else [imp["addr"], False]
        objs[idx] = ch.HttpConn(conn_data, adapters=src.adapters)
    return objs


def _derive_in_thread(w, kind):
    ch = hw.conn_http
    mh = hw.mcaller_http
    base = w.http_conn if hasattr(w, "http_conn") else w
    if kind == "copy":
        # every worker takes its private copy.copy() of the long-lived connection: still the same connection
        import copy
        return copy.copy(base), False
    if kind == "plain":
        return ch.HttpConn(base), False
    if kind == "prefix":
        return ch.HttpConn(base, adapters=ch.RequestAdapterAddPathPrefix("/d")), False

    class ThreadCaller(mh.MCallerHttp):
        _HTTP_PREFIX_MAP = {"cmp": "/tc"}

        @mh.method_http(None, "cmp")
        def simcall(self, verb, path, kw):
            """issue one request"""
            return getattr(self.get_conn(), verb)(path, **kw)
    return ThreadCaller(base), True


_SHARED_HEADERS = {}


class CallerId(str):
    """a caller's own subclass of str used as an id"""


_FUTURE_IDS = {}


def caller_id(op):
    """the object the caller puts under X-Request-ID"""
    if op.get("own_id") == "@future":
        # an id in the package's own format, made from one this connection family sent earlier, with a number
        # the generator has not reached yet (a replayed / pre-made id); resolved once, when the request is made
        if op["k"] not in _FUTURE_IDS:
            tr = hw._TRANSPORT
            seen = [v for r in (tr.requests if tr is not None else []) for k, v in r["headers"]
                    if k.lower() == "x-request-id" and isinstance(v, str) and v.count("-") == 4 and v[-12:].isdigit()]
            if seen:
                last = seen[-1]
                n = int(last[-12:]) + 7 + op["k"]
                _FUTURE_IDS[op["k"]] = f"{last[:4]}{n % 10000:04}-0000-0000-0000-{n:012}"
            else:
                _FUTURE_IDS[op["k"]] = f"caller-{op['k']}"
        return _FUTURE_IDS[op["k"]]
    form = op.get("own_id_form")
    if form == "bytes":
        return op["own_id"].encode("ascii")
    if form == "strsub":
        return CallerId(op["own_id"])
    return op["own_id"]


_LATE_TARGETS = {}     # tag of an id-stamping adapter attached during the run -> the connection object it was attached to
_OBJS = []


def _target(w):
    """the connection object a request through wrapper w starts from"""
    return w.http_conn if hasattr(w, "http_conn") else w


def do_request(objs, spec, op):
    w = objs[op["w"] % len(objs)]
    if op.get("late_adapter"):
        target = _target(w)
        if op["late_adapter"] == "id":
            _LATE_TARGETS[f"late{op['k']}"] = target
            target.add_adapter(make_id_setter({"mode": "default", "tag": f"late{op['k']}"}))
        else:
            target.add_adapter(hw.conn_http.RequestAdapter())
    if op.get("hdr_shared") is not None and op.get("own_id") is None and not op.get("derive"):
        shared = _SHARED_HEADERS.setdefault(op["hdr_shared"], {"X-Shared": f"s{op['hdr_shared']}"})
        kw = {"headers": shared}
        if spec["wrappers"][op["w"] % len(objs)]["kind"].startswith("mcaller"):
            return w.simcall(op["verb"], op["path"], kw)
        return getattr(w, op["verb"])(op["path"], **kw)
    if op.get("derive"):
        w, is_mc = _derive_in_thread(w, op["derive"])
        hdrs = dict(op.get("hdr") or {})
        if op.get("own_id") is not None:
            hdrs["X-Request-ID"] = caller_id(op)
        kw = {"headers": hdrs} if hdrs else {}
        if is_mc:
            return w.simcall(op["verb"], op["path"], kw)
        return getattr(w, op["verb"])(op["path"], **kw)
    hdrs = dict(op.get("hdr") or {})
    if op.get("own_id") is not None:
        hdrs["X-Request-ID"] = caller_id(op)
        if op.get("hdr_ci"):
            hdrs = hw.CIHeaders({k.lower(): v for k, v in hdrs.items()})
    kw = {"headers": hdrs} if (hdrs or (isinstance(op["k"], int) and op["k"] % 2 == 0)) else {}
    if spec["wrappers"][op["w"] % len(objs)]["kind"].startswith("mcaller"):
        return w.simcall(op["verb"], op["path"], kw)
    return getattr(w, op["verb"])(op["path"], **kw)


def execute(trace, rng):
    log = EventLog()
    spec = trace["world"]
    shim, tr = hw.install_seams(trace.get("seed", 0) ^ 0x5EED, log)
    hw.set_debug_logging(bool(trace.get("debug_log")))
    _SHARED_HEADERS.clear()
    _FUTURE_IDS.clear()
    _LATE_TARGETS.clear()
    objs = build_world(spec)
    _OBJS[:] = objs
    sim = ThreadSim(policy_spec=trace.get("policy"), rng=rng,
                    schedule=trace.get("schedule") if rng is None else None, log=log)
    tr.sim = sim
    nthreads = trace["nthreads"]
    per_thread = [[] for _ in range(nthreads)]
    ops = []
    outcomes = {}
    for op in trace["ops"]:
        if op.get("op") == "burst":
            # executed before the threads start, in the scheduler thread (no pre-emption, no latency)
            for j in range(op["n"]):
                sub = {"op": "req", "k": f"{op['k']}.{j}", "t": 0, "w": op["w"], "verb": op["verb"], "path": op["path"],
                       "own_id": None, "net": {"lat": 0, "body": ""}}
                tr.cur_op_fallback = sub
                try:
                    do_request(objs, spec, sub)
                    outcomes[sub["k"]] = ("ok", "")
                except Exception as e:
                    outcomes[sub["k"]] = ("exc", type(e).__name__)
                tr.cur_op_fallback = None
                ops.append(sub)
            continue
        op = dict(op)
        ops.append(op)
        per_thread[op["t"] % nthreads].append(op)

    def body(my_ops):
        def run(t):
            for op in my_ops:
                t.cur_op = op
                try:
                    r = do_request(objs, spec, op)
                    outcomes[op["k"]] = ("ok", r if not hasattr(r, "read") else "<resp>")
                except Exception as e:  # SUT exceptions are data
                    outcomes[op["k"]] = ("exc", type(e).__name__)
                t.cur_op = None
        return run
    for my_ops in per_thread:
        sim.spawn(body(my_ops))
    try:
        sim.run()
        for k in sorted(outcomes, key=str):
            log.add("ret", k, outcomes[k][0], outcomes[k][1] if outcomes[k][0] == "exc" else json.dumps(outcomes[k][1], sort_keys=True, default=str))
        check(spec, ops, tr, outcomes)
        status = {"status": OK}
    except Violation as v:
        status = violation_result(v)
    sched = sim.recorded if rng is not None else trace.get("schedule", [])
    log.add("sched", sched)
    st = dict(sim.stats)
    st["runs_with_contention"] = 1 if st["lock_contention"] else 0
    st["max_in_flight"] = tr.max_in_flight
    st["overlap_runs"] = 1 if tr.max_in_flight > 1 else 0
    st["requests"] = len(tr.requests)
    st["locks_created"] = shim.created
    for k, v in tr.fired.items():
        st["fault." + k] = v
    # offered whenever the code waits for a lock with a timeout (the unchanged tree never does)
    st["fault.timed_wait_expired"] = st.get("timed_wait_expired", 0)
    st["policy." + (trace.get("policy") or {}).get("kind", "replay")] = 1
    nontrivial = bool(st["preempt_lock_held"] or st["preempt_in_target"] or st["lock_contention"])
    h = hashlib.blake2b(json.dumps([spec, trace["ops"], sched], sort_keys=True).encode(), digest_size=8).hexdigest()
    status.update({"digest": log.digest(), "stats": st, "nontrivial": nontrivial,
                   "case": h, "schedule": sched, "sim_steps": sim.total_steps})
    return status


# --------------------------------------------------------------------------

def hdr(rec, name):
    for k, v in rec["headers"]:
        if k.lower() == name.lower():
            return v
    return None


def check(spec, ops, tr, outcomes):
    by_impl = {}
    for op in ops:
        seen = op.get("_seen", [])
        w = spec["wrappers"][op["w"] % len(spec["wrappers"])]
        adfail = op.get("adfail") if w.get("failing") else None
        nested = int(w.get("nested") or 0)
        # adapters run outer layer first: nested requests of layers outside the failing one still go out
        want = nested + (0 if adfail == "pre" else 1)
        out = outcomes.get(op["k"])
        if out is None:
            raise Violation("history", "no-outcome", f"op {op['k']} has no outcome")
        if adfail == "pre":
            if out[0] != "exc":
                raise Violation("history", "adapter-failure-swallowed", f"op {op['k']}")
            if len(seen) > nested:
                raise Violation("history", "request-sent-after-adapter-failure", f"op {op['k']}")
            for rec in seen:
                by_impl.setdefault(w["impl"], []).append(({"k": f"{op['k']}n", "own_id": None, "w": w["impl"]}, rec))
            continue
        if len(seen) != want:
            raise Violation("history", "request-count",
                            f"op {op['k']} reached the transport {len(seen)} times (expected {want})")
        fault = op["net"].get("fault")
        if not fault and adfail != "post" and out[0] == "exc":
            raise Violation("history", "unexpected-exception",
                            f"fault-free op {op['k']} raised {out[1]}")
        for rec in seen[:-1]:
            # requests issued by a nested-caller adapter go through the base connection: plain auto ids
            by_impl.setdefault(w["impl"], []).append(({"k": f"{op['k']}n", "own_id": None, "w": w["impl"]}, rec))
        by_impl.setdefault(w["impl"], []).append((op, seen[-1]))
    for impl_idx, lst in sorted(by_impl.items()):
        imp = spec["impls"][impl_idx]
        auto = []
        for op, rec in lst:
            rid = hdr(rec, "X-Request-ID")
            ids_cfg = spec["wrappers"][op["w"] % len(spec["wrappers"])].get("idsetter")
            if ids_cfg is not None and (ids_cfg["mode"] == "always" or op.get("own_id") is None):
                # an id supplied through the caller's own adapter is sent unchanged and consumes no number
                if rid != ids_cfg["tag"]:
                    raise Violation("reqid", "adapter-supplied-id-changed",
                                    f"op {op['k']}: sent {rid!r}, the caller's adapter gave {ids_cfg['tag']!r}")
                continue
            if op.get("own_id") is not None:
                want = caller_id(op)
                rid = next((v for k, v in (rec.get("raw_headers") or {}).items() if k.lower() == "x-request-id"), rid)
                if rid != want or isinstance(rid, bytes) != isinstance(want, bytes):
                    raise Violation("reqid", "caller-id-changed",
                                    f"op {op['k']}: sent {rid!r}, caller gave {want!r}")
                continue
            if isinstance(rid, str) and rid in _LATE_TARGETS:
                # the id of an adapter attached with add_adapter() during the run: requests that start from the
                # connection object it was attached to may carry it (from the moment it is there), nobody else
                wi = op["w"] % len(spec["wrappers"])
                if _target(_OBJS[wi]) is not _LATE_TARGETS[rid]:
                    raise Violation("reqid", "foreign-adapter-id",
                                    f"op {op['k']} through wrapper {wi} carries {rid!r}: that adapter was attached "
                                    f"to another connection object")
                continue
            if not imp["ids"]:
                if rid is not None:
                    raise Violation("reqid", "id-when-disabled", f"op {op['k']}: {rid!r}")
                continue
            if rid is None:
                raise Violation("reqid", "missing-id", f"op {op['k']} carries no X-Request-ID")
            auto.append((op["k"], rid))
        ids = [rid for _, rid in auto]
        if len(set(ids)) != len(ids):
            dup = sorted(x for x in set(ids) if ids.count(x) > 1)
            raise Violation("reqid", "duplicate-id", f"impl {impl_idx}: {dup}")
        nums = []
        for k, rid in auto:
            try:
                nums.append(int(str(rid).rsplit("-", 1)[1]))
            except (ValueError, IndexError):
                raise Violation("reqid", "malformed-id", f"op {k}: {rid!r}")
        if sorted(nums) != list(range(len(nums))):
            raise Violation("reqid", "sequence-gap-or-repeat",
                            f"impl {impl_idx}: numbers {sorted(nums)} for {len(nums)} requests")
