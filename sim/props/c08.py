"""C08 - colored text behaves exactly like the underlying string.

TextHeap: a pool of handles to CHText / Chunk objects shared by several
holders that take turns applying public operations, storing results in
handles - including results another holder produced and aliases of live
objects.  A parallel model keeps, per object, the tuple of (character,
style) cells; after every operation EVERY handle is compared with the model
through the harness's own escape-sequence parser.  Faults: an operand whose
conversion raises half-way through a multi-part operation.

This is the border of the technique family (no I/O, no clock): what is
simulated is interference between holders through shared mutable objects."""

import hashlib
import json

from .. import renderworld as rw
from ..core import EventLog, Violation, OK, violation_result
from ..models import sgr

ID = "C08"
ENGINE = "textheap"
SHRINK_LISTS = ("ops",)
WATCH_FILES = ("ak/color.py",)
REQUIRED_PROBES = ("ops_done", "handles_checked", "alias_ops", "inplace_on_shared", "faults_fired",
                   "slice_ops", "format_ops", "eq_checks", "multi_chunk_objects")

REAL_VS_STUB = {'real': ['ak.color: CHText, CHText.Chunk, ColorFmt'], 'stub': ['nothing; operands whose __str__ raises are harness objects (fault injection)']}

ASSUMPTIONS = ['the per-character model and the harness escape parser', 'x += [.., x, ..] is not generated (no counterpart on str); comparisons with empty coloured chunks at chunk level are left alone', "format specs follow [[fill]align][width]['s'] without leading zero in the width"]

RULE = ("each run = 10-40 seeded operations by 2-3 holders over <= 8 shared handles (construct from str/chunk/handle/nested "
        "list parts, +, reflected +, in-place +=, join, index, slice with positive/negative/None/out-of-range bounds, "
        "fixed_len, format with fill/align/width, ==, alias, copy, drop) with 2-4 colours per run and injected conversion "
        "faults inside multi-part operations; after each op every handle is compared with a per-character model. "
        "Non-trivial iff an in-place += hit an object reachable through more than one handle or through a result of an "
        "earlier operation, or a multi-chunk object was sliced across a chunk boundary; distinct = digest of the trace.")

NAMES = ["BLACK", "RED", "GREEN", "YELLOW", "BLUE", "MAGENTA", "CYAN", "WHITE"]
N_HANDLES = 8
MAX_CELLS = 400      # texts are kept small: x.join(x) and x += x grow them geometrically
LONG_MAX_CELLS = 12000      # ... except in "long" runs: few operations on texts of thousands of characters
LONG_SIZES = [1000, 1023, 1024, 2048, 4095, 4096, 4097, 5000, 8192, 9999, 10000]
ALPHA = "abcxyz0189 _-|ü<>^s\t\u65e5\uff57e\u0301"     # incl. a wide, a full-width and a combining character


def init_zygote():
    rw.init_zygote()


# --------------------------------------------------------------------------
# colours

def gen_colorspec(rng):
    def col():
        r = rng.random()
        if r < 0.4:
            return rng.choice(NAMES)
        if r < 0.6:
            return rng.randrange(256)
        if r < 0.75:
            return [rng.randrange(6), rng.randrange(6), rng.randrange(6)]
        if r < 0.85:
            return f"g{rng.randrange(24)}"
        return None
    spec = {"color": col(), "bg_color": col() if rng.random() < 0.4 else None}
    for m in ("bold", "faint", "underline", "blink", "crossed"):
        if rng.random() < 0.2:
            spec[m] = True
    return spec


def model_color(c):
    if c is None:
        return None
    if isinstance(c, str):
        if c in NAMES:
            return ("c", NAMES.index(c))
        return ("x", 232 + int(c[1:]))
    if isinstance(c, (list, tuple)):
        r, g, b = c
        return ("x", 16 + 36 * r + 6 * g + b)
    return ("x", int(c))


def model_style(spec):
    if spec is None:
        return sgr.PLAIN
    eff = frozenset(m for m in ("bold", "faint", "underline", "blink", "crossed") if spec.get(m))
    return (model_color(spec.get("color")), model_color(spec.get("bg_color")), eff)


# --------------------------------------------------------------------------
# generation

def gen_str(rng, maxlen=12):
    n = rng.choice([0, 1, 1, 2, 3, 5, 8, maxlen, maxlen, 40 if rng.random() < 0.1 else 2])
    return "".join(rng.choice(ALPHA) for _ in range(n))


def gen_operand(rng, live, ncolors, depth=0, allow_boom=False):
    if rng.random() < 0.04:
        # a text that another part of the package produced (a line of a rendered table, of a pretty-printed value):
        # not assembled with CHText's own operations, its pieces need not be merged or non-empty
        return {"fl": rng.randrange(16)}
    if rng.random() < 0.03:
        # ... or the result object of a rendering itself ("can be used as a usual CHText object")
        return {"res": rng.randrange(4)}
    if rng.random() < 0.03:
        # ... or one of the application's domain values: a str subclass (sorts, compares, goes to JSON as a plain
        # string) that also says how it is shown, through the hook texts recognise (get_ch_text)
        return {"sv": rng.choice(["FAILED", "ok", "", "two words"]), "c": rng.randrange(ncolors)}
    r = rng.random()
    if r < 0.30:
        return {"s": gen_str(rng)}
    if r < 0.55:
        return {"c": rng.randrange(ncolors), "s": gen_str(rng, 8)}
    if r < 0.80 and live:
        return {"h": rng.choice(sorted(live))}
    if r < 0.92 and depth < 2:
        items = [gen_operand(rng, live, ncolors, depth + 1) for _ in range(rng.randint(0, 3))]
        if allow_boom and rng.random() < 0.3:
            items.insert(rng.randrange(len(items) + 1), {"boom": 1})
        o = {"l": items, "tuple": True} if rng.random() < 0.3 else {"l": items}
        if items and rng.random() < 0.2:
            # one prepared list of parts referenced several times inside one operand (`[INDENT] * depth`)
            o["times"] = rng.randint(2, 3)
        return o
    if r < 0.96:
        if rng.random() < 0.3:
            # values of any type, appended the way print() would show them - also iterable ones
            return {"obj": rng.choice(["dict", "bytes", "range", "frozenset", "dictview", "empty_dict"])}
        return {"o": rng.choice([0, 42, -7, 3.5, None, True])}
    return {"s": gen_str(rng)}


def gen_bound(rng):
    return rng.choice([None, None, 0, 1, 2, 3, 5, 8, 13, 40, -1, -2, -3, -5, -9, -40])


def gen_spec(rng):
    fill = rng.choice(["", "", "_", "*", "0", " ", "x", ">", "s", "ü",
                       # characters that mean something in other positions of a format spec
                       ".", "-", "+", "#", ",", "=", "%", ":", "<", "^", "9", "\u65e5", "\n", "\t", "\\"])
    align = rng.choice(["<", ">", "^"]) if (fill or rng.random() < 0.6) else ""
    width = rng.choice(["", "1", "3", "5", "8", "12", "20", "33", "64", "100", "9", "10", "11"])
    typ = rng.choice(["", "", "s"])
    if fill and align and width and rng.random() < 0.2:
        width = "0" + width         # with an explicit fill the zero flag changes nothing for str
    elif not fill and width and rng.random() < 0.1:
        width = "0" + width         # without one it means "fill with zeros" (str: 'ab000', '000ab', '0ab00')
    return fill + align + width + typ


def gen_long_piece(rng, ncolors):
    """a long run of one colour: in one piece, or (with "rep") as many appends of a short piece"""
    c = rng.randrange(ncolors + 1)
    n = rng.choice(LONG_SIZES) - rng.choice([0, 0, 1, 3])
    piece = {"s": "".join(rng.choice(ALPHA) for _ in range(rng.randint(1, 9)))}
    if c < ncolors:
        piece["c"] = c
    if rng.random() < 0.5:
        return dict(piece, s=(piece["s"] * (n // len(piece["s"]) + 1))[:n]), 1
    return piece, n // len(piece["s"]) + rng.choice([0, 1, 2])


def generate(rng, tier):
    ncolors = rng.randint(2, 4)
    colors = [gen_colorspec(rng) for _ in range(ncolors - 1)] + [None]
    rng.shuffle(colors)
    nholders = rng.randint(2, 3)
    ops = []
    live = set()
    fault_free = rng.random() < 0.3
    long_run = rng.random() < 0.03
    esc_run = (not long_run) and rng.random() < 0.03
    for _ in range(rng.randint(10, 40 if tier == "quick" else 80) if not long_run else rng.randint(6, 14)):
        by = rng.randrange(nholders)
        r = rng.random()
        dst = rng.randrange(N_HANDLES)
        boom = (not fault_free) and rng.random() < 0.25
        if long_run and live and rng.random() < 0.4:
            # accumulation: thousands of characters of one colour arrive in one piece or piece by piece
            piece, rep = gen_long_piece(rng, ncolors)
            op = {"op": "iadd", "a": rng.choice(sorted(live)), "b": piece}
            if rep > 1:
                op["rep"] = rep
        elif not live or r < 0.14:
            op = {"op": "new", "dst": dst,
                  "parts": [gen_operand(rng, live, ncolors, allow_boom=boom) for _ in range(rng.randint(0, 4))]}
            if boom and rng.random() < 0.4:
                op["parts"].insert(rng.randrange(len(op["parts"]) + 1), {"boom": 1})
            if rng.random() < 0.2:
                # built as an object of a user's subclass of CHText (two modules of the application, each with a
                # text class of its own: 2 is the other one)
                op["sub"] = True if rng.random() < 0.7 else 2
            if rng.random() < 0.15:
                op = {"op": "chunk", "dst": dst, "c": rng.randrange(ncolors), "s": gen_str(rng, 8) or "k"}
            elif rng.random() < 0.04:
                # a text the application got from another part of the package (a line of a table it printed) and
                # goes on working with: a CHText like any other
                op = {"op": "adopt", "dst": dst, "fl": rng.randrange(16)}
        elif r < 0.24:
            op = {"op": "add", "dst": dst, "a": rng.choice(sorted(live)), "b": gen_operand(rng, live, ncolors)}
        elif r < 0.30:
            left = {"s": gen_str(rng)} if rng.random() < 0.6 else {"c": rng.randrange(ncolors), "s": gen_str(rng, 6)}
            op = {"op": "radd", "dst": dst, "a": left, "b": rng.choice(sorted(live))}
        elif r < 0.46:
            op = {"op": "iadd", "a": rng.choice(sorted(live)),
                  "b": gen_operand(rng, live, ncolors, allow_boom=boom)}
        elif r < 0.53:
            op = {"op": "join", "dst": dst, "sep": rng.choice(sorted(live)),
                  "items": [gen_operand(rng, live, ncolors) for _ in range(rng.randint(0, 4))],
                  "items_as": rng.choice(["list", "list", "gen", "tuple", "iter", "growing"])}
        elif r < 0.60:
            op = {"op": "index", "dst": dst, "a": rng.choice(sorted(live)), "i": rng.choice([0, 1, 2, 4, 7, 12, -1, -2, -5, -13, 30, -30])}
        elif r < 0.74:
            op = {"op": "slice", "dst": dst, "a": rng.choice(sorted(live)), "i": gen_bound(rng), "j": gen_bound(rng)}
        elif r < 0.82:
            op = {"op": "fixed_len", "dst": dst, "a": rng.choice(sorted(live)),
                  "n": rng.choice([0, 1, 2, 3, 5, 8, 13, 21, "len", "len", "len-1", "len+1"])}
            if rng.random() < 0.2:
                # the same through the public helper over the text's chunks: CHText(*resize_chunks_list(t.chunks, n))
                op["via"] = "chunks"
        elif r < 0.88:
            op = {"op": "format", "a": rng.choice(sorted(live)), "spec": gen_spec(rng)}
        elif r < 0.92:
            op = {"op": "eq", "a": rng.choice(sorted(live)),
                  "b": gen_operand(rng, live, ncolors) if rng.random() < 0.5 else {"h": rng.choice(sorted(live))}}
        elif r < 0.935:
            op = {"op": rng.choice(["iter", "join_text", "contains"]), "dst": dst, "a": rng.choice(sorted(live)),
                  "b": rng.choice(sorted(live)), "i": rng.choice([0, 1, 2, -1])}
        elif r < 0.96:
            op = {"op": "alias", "dst": dst, "a": rng.choice(sorted(live))}
        elif r < 0.98:
            op = {"op": "copy", "dst": dst, "a": rng.choice(sorted(live))}
            if rng.random() < 0.4:
                # the text travels: through a queue between processes (pickle), or is deep-copied
                op["how"] = rng.choice(["pickle", "pickle", "deepcopy"])
        else:
            op = {"op": "drop", "a": rng.choice(sorted(live))}
        op["by"] = by
        ops.append(op)
        if "dst" in op and op["op"] not in ("iter", "contains"):
            live.add(op["dst"])
        if op["op"] == "drop":
            live.discard(op["a"])
    tr = {"colors": colors, "ops": ops}
    if long_run:
        tr["long"] = True
    if esc_run:
        # plain operands that contain escape sequences: to a str they are characters like any other
        def salt(o):
            if isinstance(o, dict):
                if "s" in o and "c" not in o and rng.random() < 0.5:
                    o["s"] = rng.choice(["\x1b[1m", "\x1b[0m", "a\x1b[31mb", "\x1b[38:5:9mx\x1b[0m", "\x1b", "\x1b[", "[0m"]) + o["s"]
                for v in o.values():
                    salt(v)
            elif isinstance(o, list):
                for v in o:
                    salt(v)
        salt(ops)
        # ... and twins: a coloured piece next to a plain str that spells out its escape sequences
        for _ in range(rng.randint(1, 2)):
            c, t = rng.randrange(ncolors), gen_str(rng, 6) or "x"
            ops.append({"op": "new", "dst": rng.randrange(N_HANDLES), "parts": [{"c": c, "s": t}], "by": 0})
            ops.append({"op": "new", "dst": rng.randrange(N_HANDLES), "parts": [{"r": c, "s": t}], "by": 0})
            ops.append({"op": "eq", "a": ops[-1]["dst"], "b": {"c": c, "s": t}, "by": 0})
        tr["esc_operands"] = True
    return tr


def _shorter(o):
    """smaller variants of one operand"""
    if "s" in o and len(o["s"]) > 1:
        yield dict(o, s=o["s"][:1])
        yield dict(o, s=o["s"][: len(o["s"]) // 2])
    if "l" in o:
        for i in range(len(o["l"])):
            yield {"l": o["l"][:i] + o["l"][i + 1:]}
        for i, x in enumerate(o["l"]):
            for y in _shorter(x):
                yield {"l": o["l"][:i] + [y] + o["l"][i + 1:]}


def simplify(trace):
    ops = trace["ops"]
    for i, op in enumerate(ops):
        if op.get("rep", 1) > 1:
            for r2 in (1, op["rep"] // 2, op["rep"] - 1):
                if 1 <= r2 < op["rep"]:
                    yield dict(trace, ops=ops[:i] + [dict(op, rep=r2)] + ops[i + 1:])
        for key in ("b", "a"):
            if isinstance(op.get(key), dict):
                for cand in _shorter(op[key]):
                    yield dict(trace, ops=ops[:i] + [dict(op, **{key: cand})] + ops[i + 1:])
        if "s" in op and isinstance(op["s"], str) and len(op["s"]) > 1:
            yield dict(trace, ops=ops[:i] + [dict(op, s=op["s"][:1])] + ops[i + 1:])
        for key in ("parts", "items"):
            if isinstance(op.get(key), list):
                for j in range(len(op[key])):
                    yield dict(trace, ops=ops[:i] + [dict(op, **{key: op[key][:j] + op[key][j + 1:]})] + ops[i + 1:])
                for j, x in enumerate(op[key]):
                    for y in _shorter(x):
                        yield dict(trace, ops=ops[:i] + [dict(op, **{key: op[key][:j] + [y] + op[key][j + 1:]})] + ops[i + 1:])
    if len(trace["colors"]) > 1:
        for i in range(len(trace["colors"])):
            if trace["colors"][i] is not None and set(trace["colors"][i]) - {"color", "bg_color"}:
                c = {"color": trace["colors"][i].get("color") or "RED", "bg_color": None}
                yield dict(trace, colors=trace["colors"][:i] + [c] + trace["colors"][i + 1:])


# --------------------------------------------------------------------------
# model

class MObj:
    """model of one object: kind 'T' (CHText, mutable by +=) or 'K' (chunk, immutable)"""
    __slots__ = ("kind", "cells", "origin")

    def __init__(self, kind, cells, origin="new"):
        self.kind = kind
        self.cells = tuple(cells)
        self.origin = origin


class Boom:
    def __str__(self):
        raise RuntimeError("injected: conversion failed")


class BoomHit(Exception):
    def __init__(self, done):
        self.done = done


class World:
    def __init__(self, trace, log):
        from ak import color
        self.color = color
        self.trace = trace
        self.log = log
        self.fmts = []
        self.styles = []
        for spec in trace["colors"]:
            if spec is None:
                self.fmts.append(color.ColorFmt(None))
                self.styles.append(sgr.PLAIN)
            else:
                kw = dict(spec)
                c = kw.pop("color")
                if isinstance(c, list):
                    c = tuple(c)
                if isinstance(kw.get("bg_color"), list):
                    kw["bg_color"] = tuple(kw["bg_color"])
                self.fmts.append(color.ColorFmt(c, **kw))
                self.styles.append(model_style(spec))
        # runs whose plain operands contain escape sequences as ordinary characters: the rendering cannot be
        # parsed back then; texts are observed through plain_text() / len() / == only, colours are left alone
        self.opaque = bool(trace.get("esc_operands"))
        self.fmt_of_style = {stl: f for stl, f in zip(self.styles, self.fmts)}
        self.max_cells = LONG_MAX_CELLS if trace.get("long") else MAX_CELLS
        self.sub_cls = type("UserText", (color.CHText,), {"__doc__": "a user's subclass that changes nothing"})
        self.sub_cls2 = type("OtherUserText", (color.CHText,), {"__doc__": "another module's subclass, also changing nothing"})
        self._foreign = None
        self._results = None
        self._shown_cls = None
        self.real = {}      # handle -> real object
        self.model = {}     # handle -> MObj (shared between aliases)
        self.stats = {"ops_done": 0, "handles_checked": 0, "alias_ops": 0, "inplace_on_shared": 0, "faults_fired": 0,
                      "slice_ops": 0, "cross_chunk_slices": 0, "format_ops": 0, "eq_checks": 0,
                      "multi_chunk_objects": 0, "index_errors": 0, "returned_receiver": 0, "inplace_ops": 0}

    # ---- operands
    def fresh_foreign_texts(self):
        """new objects every time: lines of a rendered table and of a pretty-printed value"""
        from ak.ppobj import PPTable, PrettyPrinter
        color = self.color
        conf = color.ColorsConfig({"TABLE": {"BORDER": "CYAN"}, "RECORD.NUMBER": "YELLOW:bold", "NAME": "GREEN"})
        t = PPTable([(1, "a"), (22, "bb"), (333, "a value that gets cut")], fields=["id", "name"],
                    fmt="id,name:1-6", header="A header much longer than the table itself", footer="")
        found = list(t.ch_text(colors_conf=conf))
        found += list(PrettyPrinter()({"k": [1, 2, {"z": None}], "s": "text", "e": []}, colors_conf=conf))
        return [x for x in found if isinstance(x, color.CHText)]

    def foreign_text(self, i):
        if self._foreign is None:
            color = self.color
            self._foreign = self.fresh_foreign_texts()
            self.stats["foreign_texts"] = len(self._foreign)
            # their colours, for the oracle's "same text built in one go": a piece of that colour with another text
            for x in self._foreign:
                for piece in x.chunks:
                    if piece.text:
                        st = sgr.parse_cells(str(piece))[0][1]
                        if st != sgr.PLAIN:
                            self.fmt_of_style.setdefault(st, piece.clone)
        return self._foreign[i % len(self._foreign)]

    def foreign_result(self, i):
        if self._results is None:
            from ak.ppobj import PPTable, PrettyPrinter
            conf = self.color.ColorsConfig({"TABLE": {"BORDER": "CYAN"}, "RECORD.NUMBER": "YELLOW:bold", "NAME": "GREEN"})
            self.foreign_text(0)
            self._results = [PrettyPrinter()([1, "a"], colors_conf=conf),
                             PrettyPrinter()({"k": None}, colors_conf=conf),
                             PrettyPrinter()("plain", no_color=True),
                             PPTable([(1, "a")], fields=["id", "name"], footer="").ch_text(colors_conf=conf)]
            for r in self._results:
                for piece in r.get_ch_text().chunks:
                    if piece.text:
                        st = sgr.parse_cells(str(piece))[0][1]
                        if st != sgr.PLAIN:
                            self.fmt_of_style.setdefault(st, piece.clone)
        return self._results[i % len(self._results)]

    def shown_value(self, o):
        fmt = self.fmts[o["c"] % len(self.fmts)]
        CHText = self.color.CHText
        if self._shown_cls is None:
            class ShownValue(str):
                """a domain value of the application: a string that knows its colour"""
                def get_ch_text(self):
                    return CHText(self.fmt(str.__str__(self)))
            self._shown_cls = ShownValue
        v = self._shown_cls(o["sv"])
        v.fmt = fmt
        return v

    _PLAIN_OBJECTS = {"dict": {"timeout": 30, "tls": True}, "bytes": b"PING", "range": range(8000, 8003),
                      "frozenset": frozenset(["a"]), "dictview": {"k": 1}.keys(), "empty_dict": {}}

    def real_operand(self, o):
        if "obj" in o:
            return self._PLAIN_OBJECTS[o["obj"]]
        if "sv" in o:
            return self.shown_value(o)
        if "res" in o:
            return self.foreign_result(o["res"])
        if "fl" in o:
            return self.foreign_text(o["fl"])
        if "r" in o:
            # a plain str that happens to be what a coloured chunk renders to
            return str(self.fmts[o["r"] % len(self.fmts)](o["s"]))
        if "s" in o and "c" not in o:
            return o["s"]
        if "c" in o:
            return self.fmts[o["c"] % len(self.fmts)](o["s"])
        if "h" in o:
            return self.real.get(o["h"], "")
        if "l" in o:
            items = [self.real_operand(x) for x in o["l"]]
            items = tuple(items) if o.get("tuple") else items
            if o.get("times"):
                self.stats["repeated_part_lists"] = self.stats.get("repeated_part_lists", 0) + 1
                return [items] * o["times"]      # the same object each time
            return items
        if "boom" in o:
            return Boom()
        if "o" in o:
            return o["o"]
        raise ValueError(o)

    def model_operand(self, o, out):
        """appends cells to `out`; raises BoomHit(cells appended so far) at an injected fault"""
        if "obj" in o:
            out.extend((ch, sgr.PLAIN) for ch in str(self._PLAIN_OBJECTS[o["obj"]]))
        elif "sv" in o:
            st = self.styles[o["c"] % len(self.styles)]
            out.extend((ch, st) for ch in o["sv"])
        elif "res" in o:
            out.extend(sgr.parse_cells(str(self.foreign_result(o["res"]))))
        elif "fl" in o:
            out.extend(sgr.parse_cells(str(self.foreign_text(o["fl"]))))
        elif "r" in o:
            out.extend((ch, sgr.PLAIN) for ch in str(self.fmts[o["r"] % len(self.fmts)](o["s"])))
        elif "s" in o and "c" not in o:
            out.extend((ch, sgr.PLAIN) for ch in o["s"])
        elif "c" in o:
            st = self.styles[o["c"] % len(self.styles)]
            out.extend((ch, st) for ch in o["s"])
        elif "h" in o:
            m = self.model.get(o["h"])
            if m is not None:
                out.extend(m.cells)
        elif "l" in o:
            for _ in range(o.get("times") or 1):
                for x in o["l"]:
                    self.model_operand(x, out)
        elif "boom" in o:
            raise BoomHit(list(out))
        elif "o" in o:
            out.extend((ch, sgr.PLAIN) for ch in str(o["o"]))

    def list_contains_object(self, o, obj):
        if "h" in o:
            return self.real.get(o["h"]) is obj
        return any(self.list_contains_object(x, obj) for x in o.get("l", ()))

    def has_boom(self, o):
        if "boom" in o:
            return True
        return any(self.has_boom(x) for x in o.get("l", ()))

    # ---- checks
    def check_handle(self, h, context):
        x = self.real[h]
        m = self.model[h]
        self.stats["handles_checked"] += 1
        try:
            s = str(x)
            n = len(x)
            p = x.plain_text()
        except Exception as e:
            raise Violation("text", f"observation-raised-{type(e).__name__}", f"{context}: handle {h}: {e!r}")
        want_text = "".join(ch for ch, _ in m.cells)
        cells = [(ch, stl) for (ch, stl) in m.cells] if self.opaque else sgr.parse_cells(s)
        got_text = "".join(ch for ch, _ in cells)
        if got_text != want_text or p != want_text:
            raise Violation("text", "visible-text", f"{context}: handle {h}: shows {got_text!r} / plain_text {p!r}, model {want_text!r}")
        if n != len(m.cells):
            raise Violation("text", "len", f"{context}: handle {h}: len() = {n}, visible characters {len(m.cells)}")
        if tuple(cells) != m.cells:
            i = next(i for i, (a, b) in enumerate(zip(cells, m.cells)) if a != b)
            raise Violation("text", "colour-of-character",
                            f"{context}: handle {h}: character {i} {cells[i][0]!r} has style {cells[i][1]}, model {m.cells[i][1]}")
        if m.kind == "T":
            # "two texts showing the same characters in the same colours compare equal however they were
            # assembled": the same text built at once, one piece per run of equally coloured characters
            ref = self.built_at_once(m.cells)
            try:
                ok = (x == ref) and (ref == x) and not (x != ref)
                if ok:
                    # ... and equals the plain string exactly when every character has the default colour
                    plain = all(stl == sgr.PLAIN for _, stl in m.cells)
                    if not (bool(x == want_text) == plain and bool(want_text == x) == plain):
                        raise Violation("equality", "wrong-answer-against-plain-string",
                                        f"{context}: handle {h}: {s!r} == {want_text!r} gives {x == want_text}, "
                                        f"{'all' if plain else 'not all'} characters have the default colour")
            except Violation:
                raise
            except Exception as e:
                raise Violation("equality", f"eq-raised-{type(e).__name__}", f"{context}: handle {h}: {e!r}")
            self.stats["eq_checks"] += 1
            if not ok:
                chunks = getattr(x, "chunks", None)
                shape = f" (its pieces: {[len(c.text) for c in chunks][:12]})" if chunks is not None else ""
                raise Violation("equality", "differs-from-same-text-built-at-once",
                                f"{context}: handle {h}: {len(m.cells)} characters in {self.n_runs(m.cells)} colour run(s) "
                                f"do not compare equal to the same text built in one go{shape}")
            if len(getattr(x, "chunks", ())) > 1:
                self.stats["multi_chunk_objects"] += 1

    @staticmethod
    def n_runs(cells):
        return sum(1 for i, c in enumerate(cells) if i == 0 or cells[i - 1][1] != c[1])

    def built_at_once(self, cells):
        parts = []
        i = 0
        while i < len(cells):
            j = i
            while j < len(cells) and cells[j][1] == cells[i][1]:
                j += 1
            text = "".join(ch for ch, _ in cells[i:j])
            stl = cells[i][1]
            parts.append(text if stl == sgr.PLAIN else self.fmt_of_style[stl](text))
            i = j
        return self.color.CHText(*parts)

    def check_all(self, context):
        for h in sorted(self.real):
            self.check_handle(h, context)

    def store(self, dst, real, mobj):
        self.real[dst] = real
        self.model[dst] = mobj


def cells_eq_str(cells, s):
    return all(st == sgr.PLAIN for _, st in cells) and "".join(ch for ch, _ in cells) == s


def py_slice(n, i, j):
    return slice(i, j).indices(n)[:2]


def apply(w, op):
    color = w.color
    CHText = color.CHText
    k = op["op"]
    st = w.stats
    ctx = f"after {k}"
    if k == "new":
        out = []
        try:
            for p in op["parts"]:
                w.model_operand(p, out)
            fault = None
        except BoomHit as b:
            fault = b
        if len(out) > w.max_cells:
            return
        parts = [w.real_operand(p) for p in op["parts"]]
        try:
            x = (w.sub_cls2 if op.get("sub") == 2 else w.sub_cls if op.get("sub") else CHText)(*parts)
            if op.get("sub"):
                st["subclass_objects"] = st.get("subclass_objects", 0) + 1
            raised = None
        except Exception as e:
            raised = e
        if fault is not None:
            st["faults_fired"] += 1
            if raised is None:
                raise Violation("fault", "conversion-error-swallowed", "CHText(...) with a failing part returned a value")
            return      # no object was created; nothing else may have changed (checked by check_all)
        if raised is not None:
            raise Violation("text", f"constructor-raised-{type(raised).__name__}", repr(raised))
        w.store(op["dst"], x, MObj("T", out))
    elif k == "adopt":
        fresh = w.fresh_foreign_texts()
        x = fresh[op["fl"] % len(fresh)]
        w.foreign_text(0)       # (registers the colours for the oracle)
        st["adopted_texts"] = st.get("adopted_texts", 0) + 1
        w.store(op["dst"], x, MObj("T", sgr.parse_cells(str(x)), "adopt"))
    elif k == "chunk":
        x = w.fmts[op["c"] % len(w.fmts)](op["s"])
        stl = w.styles[op["c"] % len(w.styles)]
        w.store(op["dst"], x, MObj("K", [(ch, stl) for ch in op["s"]]))
    elif k in ("add", "radd"):
        if k == "add":
            if op["a"] not in w.real:
                return
            left_r, left_m = w.real[op["a"]], list(w.model[op["a"]].cells)
            out = list(left_m)
            w.model_operand(op["b"], out)
            right_r = w.real_operand(op["b"])
            recv = w.real[op["a"]]
        else:
            if op["b"] not in w.real:
                return
            out = []
            w.model_operand(op["a"], out)
            out.extend(w.model[op["b"]].cells)
            left_r = w.real_operand(op["a"])
            right_r = w.real[op["b"]]
            recv = w.real[op["b"]]
        if len(out) > w.max_cells:
            return
        try:
            x = left_r + right_r
        except Exception as e:
            raise Violation("text", f"{k}-raised-{type(e).__name__}", repr(e))
        if x is recv:
            st["returned_receiver"] += 1
        w.store(op["dst"], x, MObj("T", out, k))
    elif k == "iadd":
        h = op["a"]
        if h not in w.real:
            return
        m = w.model[h]
        old = list(m.cells)
        out = list(old)
        rep = op.get("rep", 1) if set(op["b"]) <= {"s", "c"} else 1
        try:
            for _ in range(rep):
                w.model_operand(op["b"], out)
            fault = None
        except BoomHit as b:
            fault = b
        if len(out) > w.max_cells:
            return
        x = w.real[h]
        if "l" in op["b"] and w.list_contains_object(op["b"], x):
            # x += [.., x, ..]: whether the inner x means the value before or during the operation has no
            # counterpart on a plain str; not generated (x += x itself is: it must double the text)
            st["skipped_self_in_list"] = st.get("skipped_self_in_list", 0) + 1
            return
        operand = w.real_operand(op["b"])
        shared = sum(1 for hh in w.real if w.real[hh] is x) > 1 or m.origin != "new"
        try:
            for _ in range(rep):
                x += operand
            raised = None
        except Exception as e:
            raised = e
        st["inplace_ops"] += 1
        if rep > 1:
            st["repeated_appends"] = st.get("repeated_appends", 0) + rep
        if fault is not None:
            st["faults_fired"] += 1
            if raised is None:
                raise Violation("fault", "conversion-error-swallowed", "+= with a failing part did not raise")
            # relaxed, narrowly: the receiver keeps its old value or old value + the parts before the failing one
            if w.opaque:
                gp = w.real[h].plain_text()
                got = tuple(fault.done) if gp == "".join(c for c, _ in fault.done) else \
                    tuple(old) if gp == "".join(c for c, _ in old) else None
            else:
                got = tuple(sgr.parse_cells(str(w.real[h])))
            if m.kind == "T":
                if got == tuple(fault.done):
                    m.cells = tuple(fault.done)
                elif got != tuple(old):
                    raise Violation("fault", "receiver-corrupted-by-failed-iadd",
                                    f"handle {h}: neither the old value nor old + parts before the failing one")
            return
        if raised is not None:
            raise Violation("text", f"iadd-raised-{type(raised).__name__}", repr(raised))
        if m.kind == "T":
            # in place: every alias of the object sees the new value
            if shared and len(out) != len(old):
                st["inplace_on_shared"] += 1
            m.cells = tuple(out)
            if x is not w.real[h]:
                raise Violation("text", "iadd-not-in-place", f"handle {h}: += on a CHText returned another object")
        else:
            # a chunk is immutable: += rebinds this handle only
            w.store(h, x, MObj("T", out, "iadd"))
    elif k == "join":
        if op["sep"] not in w.real:
            return
        sep = w.model[op["sep"]].cells
        out = []
        how = op.get("items_as")
        if how == "growing":
            # a generator that yields ONE text it keeps growing between the yields (a trail, "steps done so far"):
            # what is joined is what the text showed at each yield
            acc = []
            for n, it in enumerate(op["items"]):
                if n:
                    out.extend(sep)
                w.model_operand(it, acc)
                out.extend(acc)
        else:
            for n, it in enumerate(op["items"]):
                if n:
                    out.extend(sep)
                w.model_operand(it, out)
        if len(out) > w.max_cells:
            return
        items = [w.real_operand(it) for it in op["items"]]
        if how == "growing":
            pieces = items

            def growing():
                trail = CHText()
                for piece in pieces:
                    trail += piece
                    yield trail
            items = growing()
            st["growing_generators"] = st.get("growing_generators", 0) + 1
        elif how == "gen":
            items = (x for x in items)          # "iterable": a generator can be walked once only
        elif how == "tuple":
            items = tuple(items)
        elif how == "iter":
            items = iter(items)
        try:
            x = w.real[op["sep"]].join(items)
        except Exception as e:
            raise Violation("text", f"join-raised-{type(e).__name__}", repr(e))
        if x is w.real[op["sep"]]:
            st["returned_receiver"] += 1
        w.store(op["dst"], x, MObj("T", out, "join"))
    elif k == "index":
        if op["a"] not in w.real:
            return
        m = w.model[op["a"]]
        n = len(m.cells)
        i = op["i"]
        try:
            x = w.real[op["a"]][i]
            raised = None
        except IndexError as e:
            raised = e
        except Exception as e:
            raise Violation("text", f"index-raised-{type(e).__name__}", repr(e))
        in_range = -n <= i < n
        if not in_range:
            st["index_errors"] += 1
            if raised is None:
                raise Violation("text", "index-out-of-range-accepted", f"[{i}] on a text of {n} characters returned {str(x)!r}")
            return
        if raised is not None:
            raise Violation("text", "index-in-range-rejected", f"[{i}] on a text of {n} characters: {raised!r}")
        kind = "K" if m.kind == "K" else "T"
        w.store(op["dst"], x, MObj(kind, [m.cells[i]], "index"))
    elif k == "slice":
        if op["a"] not in w.real:
            return
        m = w.model[op["a"]]
        a, b = py_slice(len(m.cells), op["i"], op["j"])
        out = m.cells[a:b] if b > a else ()
        try:
            x = w.real[op["a"]][op["i"]:op["j"]]
        except Exception as e:
            raise Violation("text", f"slice-raised-{type(e).__name__}", f"[{op['i']}:{op['j']}]: {e!r}")
        st["slice_ops"] += 1
        if len({s for _, s in out}) > 1:
            st["cross_chunk_slices"] += 1
        if x is w.real[op["a"]]:
            st["returned_receiver"] += 1
        kind = "K" if m.kind == "K" else "T"
        w.store(op["dst"], x, MObj(kind, out, "slice"))
    elif k == "fixed_len":
        if op["a"] not in w.real:
            return
        m = w.model[op["a"]]
        n = op["n"]
        if isinstance(n, str):
            n = max(0, len(m.cells) + {"len": 0, "len-1": -1, "len+1": 1}[n])
        out = list(m.cells[:n]) + [(" ", sgr.PLAIN)] * max(0, n - len(m.cells))
        try:
            src = w.real[op["a"]]
            if op.get("via") == "chunks" and isinstance(src, CHText):
                x = type(src)(*type(src).resize_chunks_list(src.chunks, n))
                st["resize_chunks_ops"] = st.get("resize_chunks_ops", 0) + 1
            else:
                x = src.fixed_len(n)
        except Exception as e:
            raise Violation("text", f"fixed_len-raised-{type(e).__name__}", repr(e))
        if x is w.real[op["a"]]:
            st["returned_receiver"] += 1
        w.store(op["dst"], x, MObj("T", out, "fixed_len"))
    elif k == "format":
        if op["a"] not in w.real or w.opaque:
            return
        m = w.model[op["a"]]
        text = "".join(ch for ch, _ in m.cells)
        want = format(text, op["spec"])
        try:
            got = format(w.real[op["a"]], op["spec"])
        except Exception as e:
            raise Violation("format", f"format-raised-{type(e).__name__}", f"spec {op['spec']!r}: {e!r}")
        st["format_ops"] += 1
        cells = sgr.parse_cells(got)
        if "".join(ch for ch, _ in cells) != want:
            raise Violation("format", "formatted-text", f"spec {op['spec']!r}: {sgr.strip(got)!r}, str gives {want!r}")
        # the original characters keep their colours, fill characters are default coloured
        sp = op["spec"][:-1] if op["spec"].endswith("s") else op["spec"]
        if len(sp) >= 2 and sp[1] in "<>^":
            align = sp[1]
        elif sp[:1] in ("<", ">", "^"):
            align = sp[0]
        else:
            align = "<"
        pad = len(want) - len(text)
        pos = {"<": 0, ">": pad, "^": pad // 2}[align]
        if pos is not None:
            for i, (ch, stl) in enumerate(cells):
                exp = m.cells[i - pos][1] if pos <= i < pos + len(m.cells) else sgr.PLAIN
                if stl != exp:
                    raise Violation("format", "formatted-colours",
                                    f"spec {op['spec']!r}: character {i} {ch!r} has style {stl}, expected {exp}")
    elif k == "eq":
        if op["a"] not in w.real:
            return
        ma = w.model[op["a"]]
        b = op["b"]
        if "h" in b:
            if b["h"] not in w.real:
                return
            mb = w.model[b["h"]]
            rb = w.real[b["h"]]
            if ma.kind == "K" and mb.kind == "K" and not ma.cells and not mb.cells:
                return          # two empty chunks of different colours: not "texts"; left alone
            want = ma.cells == mb.cells
        elif "s" in b and "c" not in b:
            rb = b["s"]
            if ma.kind == "K" and not ma.cells:
                return
            want = cells_eq_str(ma.cells, b["s"])
        elif "c" in b:
            rb = w.real_operand(b)
            out = []
            w.model_operand(b, out)
            if not out and (ma.kind == "K" or True):
                # an empty coloured chunk shows nothing; compare only with texts
                if ma.kind == "K":
                    return
            want = ma.cells == tuple(out)
        else:
            return
        try:
            got = (w.real[op["a"]] == rb)
            got2 = not (w.real[op["a"]] != rb)
        except Exception as e:
            raise Violation("equality", f"eq-raised-{type(e).__name__}", repr(e))
        st["eq_checks"] += 1
        if got is NotImplemented or bool(got) != want or bool(got2) != want:
            raise Violation("equality", "wrong-answer",
                            f"{str(w.real[op['a']])!r} == {str(rb)!r} gives {got} (!= gives {not got2}), model {want}")
    elif k == "iter":
        # a colored text used as an iterable behaves like a str: one item per visible character
        if op["a"] not in w.real or w.model[op["a"]].kind != "T" or w.opaque:
            return
        m = w.model[op["a"]]
        try:
            items = list(w.real[op["a"]])
        except Exception as e:
            raise Violation("text", f"iteration-raised-{type(e).__name__}", repr(e))
        got = [tuple(sgr.parse_cells(str(x))) for x in items]
        want = [(c,) for c in m.cells]
        st["iter_ops"] = st.get("iter_ops", 0) + 1
        if got != want:
            raise Violation("text", "iteration-items",
                            f"iterating a text of {len(m.cells)} characters gives {len(items)} items "
                            f"{[str(x) for x in items][:6]!r}")
    elif k == "join_text":
        # sep.join(text) == sep.join(characters of text), as "-".join("abc") == "a-b-c"
        if op["a"] not in w.real or op["b"] not in w.real or w.model[op["b"]].kind != "T":
            return
        sep = w.model[op["a"]].cells
        out = []
        for n, cell in enumerate(w.model[op["b"]].cells):
            if n:
                out.extend(sep)
            out.append(cell)
        if len(out) > w.max_cells:
            return
        try:
            x = w.real[op["a"]].join(w.real[op["b"]])
        except Exception as e:
            raise Violation("text", f"join-raised-{type(e).__name__}", repr(e))
        st["iter_ops"] = st.get("iter_ops", 0) + 1
        w.store(op["dst"], x, MObj("T", out, "join"))
    elif k == "contains":
        if op["a"] not in w.real or w.model[op["a"]].kind != "T" or not w.model[op["a"]].cells:
            return
        m = w.model[op["a"]]
        i = op["i"] % len(m.cells)
        try:
            ch = w.real[op["a"]][i]
            got = ch in w.real[op["a"]]
        except Exception as e:
            raise Violation("text", f"contains-raised-{type(e).__name__}", repr(e))
        st["iter_ops"] = st.get("iter_ops", 0) + 1
        if got is not True:
            raise Violation("text", "own-character-not-contained", f"text[{i}] in text gives {got!r}")
    elif k == "alias":
        if op["a"] not in w.real:
            return
        w.real[op["dst"]] = w.real[op["a"]]
        w.model[op["dst"]] = w.model[op["a"]]
        st["alias_ops"] += 1
    elif k == "copy":
        if op["a"] not in w.real:
            return
        src = w.real[op["a"]]
        how = op.get("how")
        if how and type(src) in (CHText, CHText.Chunk):
            import copy
            import pickle
            try:
                x = pickle.loads(pickle.dumps(src)) if how == "pickle" else copy.deepcopy(src)
            except Exception as e:
                raise Violation("text", f"{how}-raised-{type(e).__name__}", repr(e))
            st["travelled_texts"] = st.get("travelled_texts", 0) + 1
            w.store(op["dst"], x, MObj(w.model[op["a"]].kind, w.model[op["a"]].cells, how))
            return
        x = CHText(src)
        w.store(op["dst"], x, MObj("T", w.model[op["a"]].cells, "copy"))
    elif k == "drop":
        w.real.pop(op["a"], None)
        w.model.pop(op["a"], None)


def execute(trace, rng):
    log = EventLog()
    w = World(trace, log)
    status = {"status": OK}
    try:
        for n, op in enumerate(trace["ops"]):
            trace["_progress"] = n
            apply(w, op)
            w.stats["ops_done"] += 1
            w.check_all(f"op {n} ({op['op']} by holder {op.get('by')})")
            # pairwise equality over all handles that are texts
            hs = sorted(w.real)
            for a in hs:
                for b in hs:
                    ma, mb = w.model[a], w.model[b]
                    if ma.kind == "K" and mb.kind == "K":
                        continue
                    if (ma.kind == "K" and not ma.cells) or (mb.kind == "K" and not mb.cells):
                        continue
                    want = ma.cells == mb.cells
                    got = w.real[a] == w.real[b]
                    w.stats["eq_checks"] += 1
                    if bool(got) != want:
                        raise Violation("equality", "wrong-answer",
                                        f"op {n}: handles {a} == {b}: {str(w.real[a])!r} == {str(w.real[b])!r} gives {got}, model {want}")
            log.add("op", n, op["op"], [(h, "".join(c for c, _ in w.model[h].cells)) for h in hs])
    except Violation as v:
        status = violation_result(v)
    st = dict(w.stats)
    if st["faults_fired"]:
        st["fault.conversion_raises_midway"] = st["faults_fired"]
    nontrivial = bool(st["inplace_on_shared"] or st["cross_chunk_slices"])
    h = hashlib.blake2b(json.dumps([trace["colors"], trace["ops"]], sort_keys=True).encode(), digest_size=8).hexdigest()
    status.update({"digest": log.digest(), "stats": st, "nontrivial": nontrivial, "case": h,
                   "sim_steps": len(trace["ops"])})
    return status
