"""RenderWorld engine: single OS thread, cooperative tasks over shared colour /
format state.

* the id allocator: `ak.ppobj.id` is replaced by a function returning
  simulated ids - an object keeps its id while alive, the id of a dead object
  may (by seeded choice) be handed to the next new object: exactly the
  freedom the language gives id(), made adversarial and repeatable;
* the GC schedule: automatic collection is off, gc.collect() is an op;
* the pristine reference: a long-lived helper process forked from the zygote
  before any repository code ran; for every reference request it forks a
  renderer that builds *equal* objects from the specs, renders once, and
  exits.  "Output has no memory" is checked against the same code with no
  history.
"""

import builtins
import gc
import json
import os
import random
import select
import signal
import sys
import weakref

from .core import bootstrap_repo, Violation

ro = None          # sim.renderobjs, imported after bootstrap
_REF = None        # RefClient of this zygote


def init_zygote():
    global ro, _REF
    if ro is not None:
        return
    bootstrap_repo()
    import logging
    logging.disable(logging.CRITICAL)      # the history report warns about unknown build tags etc.
    import ssl
    ssl.SSLContext.load_default_certs = lambda self, *a, **k: None
    from . import renderobjs
    ro = renderobjs
    _REF = RefClient()
    _REF.start()


# --------------------------------------------------------------------------
# simulated id()

class IdAllocator:
    """Stands in for the builtin id() inside ak.ppobj."""

    def __init__(self, policy, seed):
        self.policy = policy          # "always" | "never" | "coin"
        self.rng = random.Random(seed)
        self.live = {}                # real id -> (weakref, sim id)
        self.free = []
        self.next_id = 1000
        self.reused = 0
        self.calls = 0

    def __call__(self, obj):
        self.calls += 1
        rid = builtins.id(obj)
        ent = self.live.get(rid)
        if ent is not None and ent[0]() is obj:
            return ent[1]
        # a new object: first return the ids of dead objects to the free list
        dead = [k for k, (wr, _) in self.live.items() if wr() is None]
        for k in sorted(dead, key=lambda k: self.live[k][1]):
            self.free.append(self.live.pop(k)[1])
        sim = None
        if self.free:
            if self.policy == "always" or (self.policy == "coin" and self.rng.random() < 0.5):
                sim = self.free.pop()
                self.reused += 1
        if sim is None:
            sim = self.next_id
            self.next_id += 8
        try:
            wr = weakref.ref(obj)
        except TypeError:
            return rid      # not weak-referenceable: fall back to the real id
        self.live[rid] = (wr, sim)
        return sim


def install_id_seam(policy, seed):
    from ak import ppobj, color, hdoc, ghist
    alloc = IdAllocator(policy, seed)
    for mod in (ppobj, color, hdoc, ghist):
        mod.id = alloc          # module global shadowing the builtin
    return alloc


# --------------------------------------------------------------------------
# pristine reference

def reference_render(payload):
    """Runs in a pristine process.  payload: {"obj", "enums", "conf", "mode"} ->
    {"text": ...} or {"error": "Type: message"}"""
    from ak import color as akcolor
    ro.REFERENCE_PROCESS = True
    try:
        confspec = payload["conf"]
        conf = akcolor.ColorsConfig(confspec["init"], no_color=bool(confspec.get("no_color")))
        for batch in confspec.get("batches", ()):
            conf.add_new_items(dict(batch), "user")
        mode = payload["mode"]
        if mode.get("via") == "global":
            akcolor.set_global_colors_config(conf)
            use = None
        else:
            use = conf
        enums = {int(i): ro.build_enum(s) for i, s in (payload.get("enums") or {}).items()}
        built = ro.build_object(payload["obj"], enums)
        r = ro.start_rendering(built, use, mode)
        return {"text": ro.whole_text(r, mode.get("how_ref", "str"))}
    except Exception as e:  # the same failure must then happen with history
        return {"error": f"{type(e).__name__}: {e}"}


class RefClient:
    """Talks to the reference server of this zygote (one request at a time)."""

    def __init__(self):
        self.req_w = None
        self.resp_r = None
        self.pid = None
        self.counter = 0
        self.requests = 0

    def start(self):
        req_r, req_w = os.pipe()
        resp_r, resp_w = os.pipe()
        sys.stdout.flush()
        sys.stderr.flush()
        pid = os.fork()
        if pid == 0:
            try:
                os.close(req_w)
                os.close(resp_r)
                _ref_server_loop(req_r, resp_w)
            finally:
                os._exit(0)
        os.close(req_r)
        os.close(resp_w)
        self.req_w = req_w
        self.resp_r = resp_r
        self.pid = pid

    def ask(self, payload, timeout=150.0):
        self.counter += 1
        self.requests += 1
        rid = f"{os.getpid()}-{self.counter}"
        msg = json.dumps({"id": rid, "payload": payload}).encode() + b"\n"
        off = 0
        while off < len(msg):
            off += os.write(self.req_w, msg[off:])
        buf = getattr(self, "_buf", b"")
        while True:
            while b"\n" in buf:
                line, buf = buf.split(b"\n", 1)
                self._buf = buf
                rec = json.loads(line)
                if rec.get("id") == rid:
                    return rec["result"]
                # stale answer to a request of a killed child: ignore
            r, _, _ = select.select([self.resp_r], [], [], timeout)
            if not r:
                raise RuntimeError("harness: reference server did not answer")
            b = os.read(self.resp_r, 1 << 16)
            if not b:
                raise RuntimeError("harness: reference server died")
            buf += b


def _ref_server_loop(req_r, resp_w):
    """Pristine process: never runs repository code itself, only forks renderers."""
    signal.signal(signal.SIGINT, signal.SIG_IGN)
    memo = {}
    buf = b""
    while True:
        b = os.read(req_r, 1 << 16)
        if not b:
            return
        buf += b
        while b"\n" in buf:
            line, buf = buf.split(b"\n", 1)
            try:
                rec = json.loads(line)
            except Exception:
                continue
            key = json.dumps(rec["payload"], sort_keys=True)
            res = memo.get(key)
            if res is None:
                res = _render_in_grandchild(rec["payload"])
                if str(res.get("error", "")).startswith("harness"):
                    res = _render_in_grandchild(rec["payload"])      # loaded machine: once more
                else:
                    if len(memo) > 20000:
                        memo.clear()
                    memo[key] = res
            out = json.dumps({"id": rec["id"], "result": res}).encode() + b"\n"
            off = 0
            while off < len(out):
                off += os.write(resp_w, out[off:])


def _render_in_grandchild(payload):
    r, w = os.pipe()
    pid = os.fork()
    if pid == 0:
        try:
            os.close(r)
            gc.disable()
            try:
                if payload.get("kind") == "c14report":
                    from .props import c14
                    res = c14.reference_report(payload)
                else:
                    res = reference_render(payload)
            except BaseException as e:
                res = {"error": f"harness:{type(e).__name__}: {e}"}
            data = json.dumps(res).encode()
            off = 0
            while off < len(data):
                off += os.write(w, data[off:off + 65536])
        finally:
            os._exit(0)
    os.close(w)
    chunks = []
    while True:
        rr, _, _ = select.select([r], [], [], 60.0)
        if not rr:
            try:
                os.kill(pid, signal.SIGKILL)
            except ProcessLookupError:
                pass
            break
        b = os.read(r, 1 << 16)
        if not b:
            break
        chunks.append(b)
    os.close(r)
    try:
        os.waitpid(pid, 0)
    except ChildProcessError:
        pass
    try:
        return json.loads(b"".join(chunks))
    except Exception:
        return {"error": "harness: reference renderer produced no result"}


def reference(payload):
    return _REF.ask(payload)


def ref_requests():
    return _REF.requests if _REF else 0
