"""Simulator core: seeds, run-in-forked-child, event-log digests, shrinking,
known findings, evidence files.  Stdlib only.

One integer decides everything: run i of property P uses
    seed_i = blake2b(VERIF_SEED / P / i)
and a run is a pure function of (seed_i, code under /repo).  The PRNG is
consumed only by generators and schedulers, never by logging or oracles.
"""

from . import reach as _reach
import faulthandler
import gc
import hashlib
import json
import os
import select
import signal
import sys
import time
import traceback

VERIF_DIR = os.path.dirname(os.path.dirname(os.path.abspath(__file__)))
AK_REPO = os.path.abspath(os.environ.get("AK_REPO", "/repo"))
DEFAULT_BASE_SEED = 20260926

OK = "ok"
VIOLATION = "violation"
HARNESS_ERROR = "harness_error"


def bootstrap_repo():
    """Make `import ak` resolve to $AK_REPO/ak (the current working tree)."""
    if not sys.path or sys.path[0] != AK_REPO:
        sys.path.insert(0, AK_REPO)
    import ak  # noqa
    got = os.path.dirname(os.path.dirname(os.path.abspath(ak.__file__)))
    if got != AK_REPO:
        raise RuntimeError(f"ak imported from {got}, expected {AK_REPO}")


def base_seed():
    try:
        return int(os.environ.get("VERIF_SEED", DEFAULT_BASE_SEED))
    except ValueError:
        return DEFAULT_BASE_SEED


def derive_seed(base, prop, i):
    h = hashlib.blake2b(f"{base}/{prop}/{i}".encode(), digest_size=8).digest()
    return int.from_bytes(h, "big")


class EventLog:
    """Append-only event log with an incremental digest.

    Events must be built from plain data (no object reprs with addresses)."""

    __slots__ = ("h", "n", "keep", "events")

    def __init__(self, keep=False):
        self.h = hashlib.blake2b(digest_size=12)
        self.n = 0
        self.keep = keep
        self.events = []

    def add(self, *ev):
        s = json.dumps(ev, sort_keys=True, default=_json_default, ensure_ascii=True)
        self.h.update(s.encode())
        self.h.update(b"\n")
        self.n += 1
        if self.keep:
            self.events.append(s)

    def digest(self):
        return self.h.hexdigest()


def _json_default(o):
    if isinstance(o, bytes):
        return {"__bytes__": o.decode("latin-1")}
    if isinstance(o, (set, frozenset)):
        return sorted(o, key=repr)
    if isinstance(o, tuple):
        return list(o)
    return {"__repr__": type(o).__name__}


class Hang(BaseException):
    """raised by the per-run alarm inside repository code that does not come back"""


def _on_alarm(signum, frame):
    raise Hang()


def _execute_guarded(prop, trace, rng):
    """prop.execute under a wall-clock alarm (single-threaded engines only): an operation of the code
    under test that does not terminate is a liveness violation, not a harness error."""
    # CPU time of this process, not wall time: waiting (for the reference server, for a loaded
    # machine) never fires it, a loop inside the code under test does
    limit = getattr(prop, "RUN_DEADLINE_S", 10.0)
    if trace.get("long"):
        limit *= 6          # long runs use up to a second of CPU themselves
    use_alarm = getattr(prop, "ENGINE", "") != "threadsim"
    if use_alarm:
        signal.signal(signal.SIGPROF, _on_alarm)
        signal.setitimer(signal.ITIMER_PROF, limit)
    try:
        return prop.execute(trace, rng)
    except Hang:
        return {"status": VIOLATION, "oracle": "liveness", "klass": "operation-did-not-terminate",
                "detail": f"the run burned {limit}s of CPU time without finishing (typical run: milliseconds); "
                          f"last op index: {trace.get('_progress')}",
                "digest": "hang", "stats": {}, "nontrivial": False}
    except Exception as e:
        # an exception that escapes from the package's own code while an oracle looks at one of its objects
        # (str(), ==, len(), iteration outside a guarded call) is behaviour of the package, not a harness problem
        if use_alarm and escaped_from_package(e):
            return {"status": VIOLATION, "oracle": "observation", "klass": f"package-raised-{type(e).__name__}",
                    "detail": f"{e!r} escaped from {_innermost(e)} while the run was observed; "
                              f"last op index: {trace.get('_progress')}",
                    "digest": "raised", "stats": {}, "nontrivial": False}
        raise
    finally:
        if use_alarm:
            signal.setitimer(signal.ITIMER_PROF, 0)


def _innermost(exc):
    tb, last = exc.__traceback__, None
    while tb is not None:
        tb, last = tb.tb_next, tb
    if last is None:
        return ""
    return f"{os.path.abspath(last.tb_frame.f_code.co_filename)}:{last.tb_lineno}"


def escaped_from_package(exc):
    """True when the innermost frame of the exception is code of the package under test"""
    return _innermost(exc).startswith(os.path.join(AK_REPO, "ak") + os.sep)


class Violation(Exception):
    """Raised by oracles.  oracle: which oracle; klass: stable short class of
    the failure (part of the signature); detail: free text."""

    def __init__(self, oracle, klass, detail=""):
        super().__init__(f"{oracle}/{klass}: {detail}")
        self.oracle = oracle
        self.klass = klass
        self.detail = detail


def violation_result(v, **extra):
    r = {"status": VIOLATION, "oracle": v.oracle, "klass": v.klass,
         "detail": str(v.detail)[:2000]}
    r.update(extra)
    return r


# --------------------------------------------------------------------------
# forked children

def run_in_child(fn, arg, wall_s=30.0):
    """Run fn(arg) in a freshly forked child; return its JSON-able result.

    The child inherits the (pristine) state of the caller, returns one JSON
    record on a pipe and _exits.  A dead or hung child yields harness_error.
    """
    rfd, wfd = os.pipe()
    sys.stdout.flush()
    sys.stderr.flush()
    pid = os.fork()
    if pid == 0:
        code = 0
        try:
            os.close(rfd)
            try:
                faulthandler.dump_traceback_later(max(1.0, wall_s - 1.0), exit=False)
            except Exception:
                pass
            try:
                # a runaway loop in the code under test must not take the machine down
                import resource
                resource.setrlimit(resource.RLIMIT_AS, (3 << 30, 3 << 30))
            except Exception:
                pass
            _reach.child_start()
            try:
                res = fn(arg)
            except Violation as v:
                res = violation_result(v)
            except BaseException:
                res = {"status": HARNESS_ERROR, "detail": traceback.format_exc()[-4000:]}
            _reach.child_result(res)
            try:
                data = json.dumps(res, default=_json_default).encode()
            except Exception:
                data = json.dumps({"status": HARNESS_ERROR,
                                   "detail": "unserialisable result: " + traceback.format_exc()[-2000:]}).encode()
            off = 0
            while off < len(data):
                off += os.write(wfd, data[off:off + 65536])
        except BaseException:
            code = 3
        finally:
            os._exit(code)
    os.close(wfd)
    chunks = []
    deadline = time.monotonic() + wall_s
    timed_out = False
    while True:
        left = deadline - time.monotonic()
        if left <= 0:
            timed_out = True
            break
        r, _, _ = select.select([rfd], [], [], left)
        if not r:
            timed_out = True
            break
        b = os.read(rfd, 1 << 16)
        if not b:
            break
        chunks.append(b)
    os.close(rfd)
    if timed_out:
        try:
            os.kill(pid, signal.SIGKILL)
        except ProcessLookupError:
            pass
    try:
        _, st = os.waitpid(pid, 0)
    except ChildProcessError:
        st = 0
    if timed_out:
        return {"status": HARNESS_ERROR, "detail": f"child exceeded wall limit {wall_s}s"}
    data = b"".join(chunks)
    if not data:
        return {"status": HARNESS_ERROR, "detail": f"child died without result (wait status {st})"}
    try:
        res = json.loads(data)
    except Exception as e:
        return {"status": HARNESS_ERROR, "detail": f"bad child output: {e}"}
    _reach.parent_collect(res)
    return res


# --------------------------------------------------------------------------
# running one seed / one trace

def run_seed(prop, seed, tier, want_trace=False):
    """generate + execute one run (called inside a forked child)."""
    import random
    rng = random.Random(seed)
    trace = prop.generate(rng, tier)
    trace["property"] = prop.ID
    trace["seed"] = seed
    # what is executed is exactly what a replay file can hold
    trace = json.loads(json.dumps(trace, default=_json_default))
    res = _execute_guarded(prop, trace, rng)
    trace.pop("_progress", None)
    if res.get("status") != OK or want_trace:
        if "schedule" in res:
            trace["schedule"] = res.pop("schedule")
        res["trace"] = trace
    else:
        res.pop("schedule", None)
    res["nops"] = len(trace.get("ops", ()))
    return res


def replay_trace(prop, trace):
    """execute a recorded trace with the PRNG disconnected (inside a child)."""
    res = _execute_guarded(prop, trace, None)
    trace.pop("_progress", None)
    res.pop("schedule", None)
    return res


def signature(res):
    return (res.get("oracle"), res.get("klass"))


# --------------------------------------------------------------------------
# shrinking (ddmin over lists + property specific simplifications)

class Shrinker:
    def __init__(self, prop, trace, sig, budget=300, wall_s=30.0, deadline=None):
        self.prop = prop
        self.best = trace
        self.sig = sig
        self.budget = budget
        self.tried = 0
        self.kept = 0
        self.wall_s = wall_s
        self.deadline = deadline

    def _test(self, cand):
        if self.tried >= self.budget:
            return False
        if self.deadline is not None and time.monotonic() > self.deadline:
            return False
        self.tried += 1
        res = run_in_child(lambda t: replay_trace(self.prop, t), cand, self.wall_s)
        if res.get("status") == VIOLATION and signature(res) == self.sig:
            self.best = cand
            self.kept += 1
            return True
        return False

    def ddmin_list(self, key):
        items = list(self.best.get(key) or [])
        if not items:
            return
        n = 2
        while len(items) >= 1 and self.tried < self.budget:
            chunk = max(1, len(items) // n)
            reduced = False
            i = 0
            while i < len(items):
                cand_items = items[:i] + items[i + chunk:]
                cand = dict(self.best)
                cand[key] = cand_items
                if self._test(cand):
                    items = cand_items
                    reduced = True
                    n = max(n - 1, 2)
                else:
                    i += chunk
                if self.tried >= self.budget:
                    break
            if not reduced:
                if chunk == 1:
                    break
                n = min(len(items), n * 2)

    def run(self):
        for key in getattr(self.prop, "SHRINK_LISTS", ("ops",)):
            self.ddmin_list(key)
        simp = getattr(self.prop, "simplify", None)
        if simp is not None:
            progress = True
            rounds = 0
            while progress and self.tried < self.budget and rounds < 6:
                progress = False
                rounds += 1
                for cand in simp(self.best):
                    if self._test(cand):
                        progress = True
                        break
        for key in getattr(self.prop, "SHRINK_LISTS", ("ops",)):
            self.ddmin_list(key)
        return self.best


# --------------------------------------------------------------------------
# known findings

KNOWN_FILE = os.path.join(VERIF_DIR, "known_findings.txt")


def load_known_findings():
    """Lines:  known: property=<id> sig=<oracle>/<klass> [shape=<a,b,c>] <what fails>
               fixed: property=<id> <commit> <what failed>      (suppresses nothing)
    """
    known = []
    if not os.path.exists(KNOWN_FILE):
        return known
    for line in open(KNOWN_FILE, encoding="utf-8"):
        line = line.strip()
        if not line or line.startswith("#"):
            continue
        if line.startswith("known:"):
            d = {"what": line[len("known:"):].strip()}
            for tok in line.split():
                if "=" in tok:
                    k, v = tok.split("=", 1)
                    if k in ("property", "sig", "shape"):
                        d[k] = v
            known.append(d)
    return known


def match_known(known, prop_id, res, trace):
    sig = f"{res.get('oracle')}/{res.get('klass')}"
    shape = ",".join(op.get("op", "?") for op in trace.get("ops", ()))
    for k in known:
        if k.get("property") != prop_id or k.get("sig") != sig:
            continue
        if "shape" in k and k["shape"] != shape:
            continue
        return k
    return None


# --------------------------------------------------------------------------
# evidence

def write_evidence(prop_id, payload):
    # evidence/ holds only what was measured on /repo itself; runs against a scratch copy
    # (sensitivity self-test, seeded changes through AK_REPO) write elsewhere
    scratch = AK_REPO != "/repo" or os.environ.get("VERIF_SCRATCH_EVIDENCE")
    d = os.path.join(VERIF_DIR, "scratch-evidence" if scratch else "evidence")
    os.makedirs(d, exist_ok=True)
    path = os.path.join(d, f"{prop_id}.json")
    tmp = path + ".tmp"
    with open(tmp, "w", encoding="utf-8") as f:
        json.dump(payload, f, indent=1, sort_keys=True, default=_json_default)
        f.write("\n")
    os.replace(tmp, path)
    return path


def write_replay(prop_id, seed, payload):
    d = os.path.join(VERIF_DIR, "replays")
    os.makedirs(d, exist_ok=True)
    path = os.path.join(d, f"{prop_id}-{seed}.json")
    with open(path, "w", encoding="utf-8") as f:
        json.dump(payload, f, indent=1, sort_keys=True, default=_json_default)
        f.write("\n")
    return path


def repo_tree_digest(files):
    h = hashlib.blake2b(digest_size=12)
    for rel in sorted(files):
        p = os.path.join(AK_REPO, rel)
        try:
            with open(p, "rb") as f:
                h.update(rel.encode() + b"\0" + f.read() + b"\0")
        except OSError:
            h.update(rel.encode() + b"\0<missing>\0")
    return h.hexdigest()


def quiet_gc():
    gc.disable()
