"""Builders: JSON specs -> printable objects of the package, and the single
`render()` routine used both by the world (with history) and by the pristine
reference process (without).  Imported only after core.bootstrap_repo()."""

from collections import namedtuple

from ak import color as akcolor
from ak import ppobj as akppobj
from ak import hdoc as akhdoc
from ak import ghist as akghist
from ak.color import ConfColor, CHText, ColorsConfig
from ak.ppobj import PPTable, PPRecordFmt, PPEnumFieldType, PrettyPrinter, FieldType
from ak.hdoc import HCommand, h_doc

from . import fakegit

# --------------------------------------------------------------------------
# custom palettes (defined once per process, like an application would)


class RedTablePalette(PPTable.TablePalette):
    border = ConfColor('TABLE.WARN')


class AltEnumPalette(PPEnumFieldType.EnumPalette):
    value = ConfColor('NUMBER')
    name_good = ConfColor('OK')
    name_warn = ConfColor('WARN')


class SubTablePalette(PPTable.TablePalette):
    SUB_PALETTES_MAP = {PPEnumFieldType.EnumPalette: AltEnumPalette}
    header = ConfColor('KEYWORD')


class AltPPPalette(PrettyPrinter.PPPalette):
    name = ConfColor('KEYWORD')
    number = ConfColor('ERROR')


class AltGHistPalette(akghist.GHistReport.GHistPalette):
    repo = ConfColor('GHIST.HASH')


class AltRecPalette(PPRecordFmt.PPRecordPalette):
    SUB_PALETTES_MAP = {PPEnumFieldType.EnumPalette: AltEnumPalette}
    number = ConfColor('ERROR')


class BoxPalette(akcolor.Palette):
    """palette of a printable object defined by a user of the package"""
    SYNTAX_DEFAULTS = {"BOX.FRAME": "BLUE", "BOX.TEXT": "NAME:underline"}
    frame = ConfColor("BOX.FRAME")
    label = ConfColor("BOX.TEXT")
    number = ConfColor("NUMBER")


class UserBox(akppobj.PPObj):
    """user-defined printable object producing lines"""
    PALETTE_CLASS = BoxPalette

    def __init__(self, items, keep_lines=False):
        self.items = items
        # (a pane that highlights its lines once per palette, keeps the texts and yields the same objects on every
        # refresh: the lines are its own)
        self.keep_lines = keep_lines
        self._kept = {}

    def gen_ch_lines(self, cp):
        if self.keep_lines:
            if id(cp) not in self._kept:
                self._kept[id(cp)] = (cp, list(self._gen_lines(cp)))
            yield from self._kept[id(cp)][1]
            return
        yield from self._gen_lines(cp)

    def _gen_lines(self, cp):
        width = max([len(str(x)) for x in self.items] + [3])
        yield CHText(cp.frame("+" + "-" * width + "+"))
        for x in self.items:
            fmt = cp.number if isinstance(x, (int, float)) and not isinstance(x, bool) else cp.label
            yield CHText(cp.frame("|"), CHText(fmt(str(x))).fixed_len(width), cp.frame("|"))
        yield CHText(cp.frame("+" + "-" * width + "+"))


class UserNote(akppobj.PPObj):
    """user-defined printable object producing its text at once"""
    PALETTE_CLASS = BoxPalette

    def __init__(self, items):
        self.items = items

    def make_ch_text(self, cp):
        return CHText(cp.frame("["), CHText(cp.text(", ")).join(cp.label(str(x)) for x in self.items), cp.frame("]"))


def _themed_table_palette(theme, border_descr):
    """palette classes made by a factory: distinct classes that look alike (same module, same qualified name),
    each with defaults of its own"""
    class ThemedTablePalette(PPTable.TablePalette):
        PARENT_PALETTES = [PPTable.TablePalette]       # (it uses syntaxes declared by the class it derives from)
        SYNTAX_DEFAULTS = {f"THEME.{theme}.BORDER": border_descr, f"THEME.{theme}.NUM": "NUMBER:underline"}
        border = ConfColor(f"THEME.{theme}.BORDER")
        number = ConfColor(f"THEME.{theme}.NUM")
    return ThemedTablePalette


def _themed_pp_palette(theme, name_descr):
    class ThemedPPPalette(PrettyPrinter.PPPalette):
        PARENT_PALETTES = [PrettyPrinter.PPPalette]
        SYNTAX_DEFAULTS = {f"THEME.{theme}.KEY": name_descr}
        name = ConfColor(f"THEME.{theme}.KEY")
    return ThemedPPPalette


PALETTES = {
    "PPPalette": PrettyPrinter.PPPalette, "GHistPalette": akghist.GHistReport.GHistPalette,
    "red": RedTablePalette, "sub": SubTablePalette, "altpp": AltPPPalette,
    "altghist": AltGHistPalette, "altrec": AltRecPalette,
    "theme_a": _themed_table_palette("A", "BLUE:bold"), "theme_b": _themed_table_palette("B", "MAGENTA/YELLOW"),
    "pptheme_a": _themed_pp_palette("A", "CYAN:underline"), "pptheme_b": _themed_pp_palette("B", "RED:bold"),
}

# palette classes that an application may instantiate directly ("first use of a component")
TOUCHABLE = {
    "PPPalette": PrettyPrinter.PPPalette,
    "RecordPalette": FieldType.RecordPalette,
    "TitlePalette": akppobj._DefaultTitleFieldType.TitlePalette,
    "TablePalette": PPTable.TablePalette,
    "EnumPalette": PPEnumFieldType.EnumPalette,
    "GHistPalette": akghist.GHistReport.GHistPalette,
    "HCmdPalette": HCommand.HCmdPalette,
    "LLImplPalette": akhdoc.LLImpl.LLImplPalette,
    "RecPalette": PPRecordFmt.PPRecordPalette,
    "GlobalPalette": akcolor.GlobalPalette,
    "red": RedTablePalette, "sub": SubTablePalette, "altpp": AltPPPalette, "AltEnum": AltEnumPalette,
}
SYNCABLE = ("PPPalette", "RecordPalette", "TitlePalette", "EnumPalette", "GHistPalette", "HCmdPalette",
            "GlobalPalette", "altpp", "AltEnum")

# --------------------------------------------------------------------------
# h_doc menu


@h_doc
class HDocSample:
    """Sample class with h-docs

    Detailed description
    of the class.
    """
    _HDOC_ATTRS = [("alpha", "the first attribute"), ("beta_long_name", "missing attribute")]

    def __init__(self):
        self.alpha = 1
        self.beta_long_name = None

    def method_one(self, arg, opt=None):
        """Do one thing

        Body line.
        #main #extra
        """

    def method_two(self):
        """Do another thing

        #extra
        """

    def _hidden(self):
        """not reported"""


@h_doc
class HDocDerived(HDocSample):
    """Derived sample"""

    def method_three(self, *args, **kwargs):
        """Third

        #main
        """


_SHARED_NOTES = None


@h_doc
class HDocNoted:
    """A user's class that annotates its methods in the help (the documented _get_hdoc_method_notes hook)"""

    def _get_hdoc_method_notes(self, bound_method, _c):
        from ak.hdoc import BoundMethodNotes
        name = bound_method.__name__
        if name == "same_text":
            # the short note highlighted, the note line the same words in plain
            return BoundMethodNotes(False, CHText(_c.warn("<n/a>")), "<n/a>")
        if name == "two_colours":
            return BoundMethodNotes(False, CHText(_c.warn("busy")), CHText(_c.tag("busy")))
        if name == "plain_notes":
            return BoundMethodNotes(True, "ok", "ok")
        if name in ("shared_a", "shared_b"):
            # the application made its notes objects once, at start-up, and hands out the same ones for every
            # method, object and request
            global _SHARED_NOTES
            if _SHARED_NOTES is None:
                _SHARED_NOTES = BoundMethodNotes(True, CHText("<cached>"), CHText("served from the cache"))
            return _SHARED_NOTES
        return BoundMethodNotes(True, "", "a note line only")

    def shared_a(self):
        """First of two methods with one notes object

        #extra
        """

    def shared_b(self, key):
        """Second of two methods with one notes object

        #extra
        """

    def same_text(self):
        """Not available here

        #main
        """

    def two_colours(self, x):
        """Busy method

        #main
        """

    def plain_notes(self):
        """Plain notes

        #extra
        """

    def other(self):
        """Something else"""


@h_doc(explicit_only=True)
class HDocExplicit:
    """Only the methods marked explicitly are reported

    (the explicit_only form of the decorator)
    """
    _HDOC_ATTRS = [("gamma", "an attribute")]

    def __init__(self):
        self.gamma = "g"

    @h_doc
    def shown(self, a, *rest):
        """Shown method

        Details of the shown method.
        #main
        """

    @h_doc(hidden=True)
    def secret(self):
        """Hidden from the class help

        #main
        """

    def unmarked(self):
        """Documented, but not marked

        #main
        """

    # the same function under a second name
    also_shown = shown


@h_doc
def hdoc_function(first, second=None):
    """A documented function

    With details.
    #tools
    """


def _make_mcaller():
    from ak.mcaller_http import MCallerHttp, method_http

    class SimHttpCaller(MCallerHttp):
        """Http caller used for help rendering"""
        _HTTP_PREFIX_MAP = {"compA": "/a", "compB": "/b"}

        @method_http("basic", "compA")
        def needs_basic(self, x):
            """Needs basic auth

            #net
            """

        @method_http(None, "compZ")
        def needs_other_component(self):
            """Component is not configured

            #net
            """

        @method_http(None, ["compA", "compB"])
        def ambiguous_component(self):
            """Two configured components match

            #net
            """

        @method_http
        def plain_call(self, a, b=2):
            """Plain call

            #misc
            """
    return SimHttpCaller("http://sim.test")


_MC = None


def hdoc_object(name):
    global _MC
    if name == "cls":
        return HDocSample
    if name == "obj":
        return HDocSample()
    if name == "derived":
        return HDocDerived()
    if name == "noted":
        return HDocNoted()
    if name == "noted_method":
        return HDocNoted().same_text
    if name == "method":
        return HDocSample().method_one
    if name == "explicit":
        return HDocExplicit()
    if name == "explicit_cls":
        return HDocExplicit
    if name == "explicit_method":
        return HDocExplicit().secret
    if name == "func":
        return hdoc_function
    if name == "mcaller":
        if _MC is None:
            _MC = _make_mcaller()
        return _MC
    raise ValueError(name)


# --------------------------------------------------------------------------
# objects

_SHARED_REPORT_FORMATTER = None


def build_enum(spec):
    vals = {}
    for v, name, synt in spec["values"]:
        vals[v] = (name, synt) if synt is not None else name
    if spec.get("missing"):
        vals[PPEnumFieldType.MISSING] = tuple(spec["missing"])
    if spec.get("user_default") == "name":
        return NameFirstEnumType(vals)
    if spec.get("user_marker"):
        return MarkedEnumType(vals)
    return PPEnumFieldType(vals)


class MarkedEnumType(PPEnumFieldType):
    """an application's enum type (documented hooks overridden, super() called): every cell gets a trailing mark.
    The list of chunks it got from super() is its own to extend - as it is with every other field type."""

    def make_desired_cell_ch_chunks(self, value, fmt_modifier, field_palette):
        chunks, align = super().make_desired_cell_ch_chunks(value, fmt_modifier, field_palette)
        chunks.append(field_palette.text("*"))
        return chunks, align

    def get_cell_text_len(self, value, fmt_modifier):
        return super().get_cell_text_len(value, fmt_modifier) + 1


class NameFirstEnumType(PPEnumFieldType):
    """an application's enum type (documented hooks overridden, super() called): a column without a modifier
    shows the names only; 'status/full' and 'status/val' mean what they always mean"""

    def make_desired_cell_ch_chunks(self, value, fmt_modifier, field_palette):
        return super().make_desired_cell_ch_chunks(value, fmt_modifier or "name", field_palette)

    def get_cell_text_len(self, value, fmt_modifier):
        return super().get_cell_text_len(value, fmt_modifier or "name")


def decode_value(v):
    """values of a description as the caller has them: {"__pairs__": [[k, v], ...]} is a dict whose keys need not
    be strings (JSON cannot hold those), {"__tuple__": [...]} a tuple"""
    if isinstance(v, dict):
        if set(v) == {"__pairs__"}:
            return {decode_value(k): decode_value(x) for k, x in v["__pairs__"]}
        if set(v) == {"__tuple__"}:
            return tuple(decode_value(x) for x in v["__tuple__"])
        return {k: decode_value(x) for k, x in v.items()}
    if isinstance(v, list):
        return [decode_value(x) for x in v]
    return v


class Built:
    """a printable object together with what is needed to render it"""
    __slots__ = ("kind", "obj", "spec", "records")

    def __init__(self, kind, obj, spec, records=None):
        self.kind = kind
        self.obj = obj
        self.spec = spec
        self.records = records


class _Attr:
    """a record part whose value is reached by attribute access"""

    def __init__(self, v):
        self.v = v

    def __repr__(self):
        # (no memory address: a table that shows the object itself must look the same in every process)
        return f"_Attr({self.v!r})"


class RaisingFieldType(FieldType):
    """a user's field type that cannot show some values"""

    def make_desired_cell_ch_chunks(self, value, fmt_modifier, field_palette):
        if value == 13 or value == "Jerry":
            raise LookupError(f"cannot show {value!r}")
        return super().make_desired_cell_ch_chunks(value, fmt_modifier, field_palette)


_FIELD_ENUMS = {}


def fields_arg(spec):
    """the fields= argument in the form the description asks for: a list of str (usual), a tuple, or members of
    a caller's `class Col(str, Enum)` (each member IS a str equal to the field name)"""
    names = list(spec["fields"])
    how = spec.get("fields_as")
    if how == "tuple":
        return tuple(names)
    if how == "strenum":
        key = tuple(names)
        if key not in _FIELD_ENUMS:
            import enum
            _FIELD_ENUMS[key] = enum.Enum("Col", {f"F{i}": n for i, n in enumerate(names)}, type=str)
        return list(_FIELD_ENUMS[key])
    return names


class OwnPalette(akcolor.Palette):
    """the palette of an application's field type: not related to the standard record palette"""
    SYNTAX_DEFAULTS = {"APPVAL.VALUE": "CYAN", "APPVAL.NONE": "APPVAL.VALUE:faint"}
    value = ConfColor("APPVAL.VALUE")
    none = ConfColor("APPVAL.NONE")


class OwnPaletteFieldType(FieldType):
    """an application's field type with a palette of its own (documented: PALETTE_CLASS + the cell hook)"""
    PALETTE_CLASS = OwnPalette

    def make_desired_cell_ch_chunks(self, value, fmt_modifier, field_palette):
        if fmt_modifier is not None:
            raise ValueError(f"no format modifiers here: {fmt_modifier!r}")
        if value is None:
            return [field_palette.none("-")], akppobj.ALIGN_LEFT
        return [field_palette.value(str(value))], akppobj.ALIGN_LEFT


class UnitFieldType(FieldType):
    """an application's field type with format modifiers of its own (documented hooks, super() called): the modifier
    is the unit the number is shown in - free-form texts such as 'km/h'"""

    def __init__(self, units):
        super().__init__()
        self.units = list(units)

    def is_fmt_modifier_ok(self, fmt_modifier):
        if fmt_modifier is None or fmt_modifier in self.units:
            return True, ""
        return False, f"unknown unit '{fmt_modifier}'; known units: {self.units}"

    def make_desired_cell_ch_chunks(self, value, fmt_modifier, field_palette):
        chunks, align = super().make_desired_cell_ch_chunks(value, None, field_palette)
        if fmt_modifier not in (None, "raw") and value is not None:
            chunks = chunks + [field_palette.text(" " + fmt_modifier)]
        return chunks, align


class DecimalsFieldType(FieldType):
    """an application's field type (one documented hook overridden, super() called) shared by all its tables; it has
    one setting, the number of decimals, which the preferences dialog may change at any time"""

    def __init__(self):
        super().__init__()
        self.decimals = 2

    def make_desired_cell_ch_chunks(self, value, fmt_modifier, field_palette):
        if isinstance(value, float) and fmt_modifier is None:
            return [field_palette.number(f"{value:.{self.decimals}f}")], akppobj.ALIGN_RIGHT
        return super().make_desired_cell_ch_chunks(value, fmt_modifier, field_palette)


APP_DECIMALS = DecimalsFieldType()      # the one long-lived object of the application


class LegendTable(PPTable):
    """a user's table class: the documented line generator is overridden to append a legend"""

    def gen_ch_lines(self, cp):
        n = 0
        for line in super().gen_ch_lines(cp):
            n += 1
            yield line
        yield CHText(cp.text(f"-- {n} lines above"))


class CenterFieldType(FieldType):
    """a user's field type that centres its values"""

    def make_desired_cell_ch_chunks(self, value, fmt_modifier, field_palette):
        chunks, _ = super().make_desired_cell_ch_chunks(value, fmt_modifier, field_palette)
        return chunks, akppobj.ALIGN_CENTER


def width_field_type(args):
    """[lo, hi] or [lo, hi, "center"] -> a plain field type with its own default width bounds"""
    cls = CenterFieldType if len(args) > 2 and args[2] == "center" else FieldType
    return cls(min_width=args[0], max_width=args[1])


class NestedValue:
    """a cell value whose text is itself produced by the package (a rendering inside a rendering)"""

    def __init__(self, value):
        self.value = value

    def __str__(self):
        return str(PrettyPrinter()(self.value, no_color=True))


class TransientError(Exception):
    """raised by a FlakyValue (fault injection: the harness's own exception type)"""


REFERENCE_PROCESS = False      # set in the pristine reference process: values there are never flaky


class FlakyValue:
    """a cell value whose text comes from somewhere that is not ready the first time(s) it is asked (a lazily
    loaded attribute, a backend that timed out): str() raises, later it works.  The caller catches the error and
    prints again."""

    def __init__(self, value, fails):
        self.value = value
        self.left = 0 if REFERENCE_PROCESS else fails

    def __str__(self):
        if self.left > 0:
            self.left -= 1
            raise TransientError("value not ready yet")
        return str(self.value)


def _cell(v):
    if isinstance(v, dict) and set(v) == {"nested"}:
        return NestedValue(v["nested"])
    if isinstance(v, dict) and set(v) == {"flaky", "fails"}:
        return FlakyValue(v["flaky"], v["fails"])
    return v


def _records(spec):
    recs = [tuple(_cell(v) for v in r) for r in spec["records"]]
    if spec.get("nt"):
        R = namedtuple("R", spec["fields"])
        recs = [R(*r) for r in recs]
    return recs


def build_object(spec, enums):
    """enums: {index: PPEnumFieldType} shared field types of the world"""
    k = spec["kind"]
    if k == "pp":
        # (the value is the application's own data object: it lives as long as the object slot, and every
        # rendering prints this very object)
        value = decode_value(spec["value"])
        if spec.get("module_pp") and not spec.get("fmt_json"):
            return Built(k, akppobj.pp, spec, value)        # the ready-to-use printer of the module
        return Built(k, PrettyPrinter(fmt_json=spec.get("fmt_json", False)), spec, value)
    if k == "userbox":
        return Built(k, UserBox(spec["items"], keep_lines=bool(spec.get("keep_lines"))), spec)
    if k == "usernote":
        return Built(k, UserNote(spec["items"]), spec)
    if k == "table":
        recs = _records(spec)
        kw = {}
        if not spec.get("nt"):
            kw["fields"] = fields_arg(spec)
        if spec.get("types"):
            kw["fields_types"] = {n: enums[i] for n, i in spec["types"].items()}
        if spec.get("wtypes"):
            # plain field types with their own default width bounds
            ft = kw.setdefault("fields_types", {})
            for n, args in spec["wtypes"].items():
                ft.setdefault(n, width_field_type(args))
        if spec.get("dec_col") and "level" in spec["fields"]:
            kw.setdefault("fields_types", {})["level"] = APP_DECIMALS
            if REFERENCE_PROCESS:
                APP_DECIMALS.decimals = spec.get("decimals_now", 2)
        if spec.get("own_palette_cols"):
            # every column has the application's field type with a palette of its own: the table itself never asks
            # for the standard record palette
            kw["fields_types"] = {n: OwnPaletteFieldType() for n in spec["fields"]}
        if spec.get("poison"):
            kw.setdefault("fields_types", {}).setdefault(spec["poison"], RaisingFieldType())
        if spec.get("titles"):
            kw["fields_titles"] = dict(spec["titles"])
        if spec.get("limits") is not None:
            # (n_first, n_last) given as a tuple or as a list
            kw["limits"] = tuple(spec["limits"]) if len(spec.get("records") or ()) % 2 else list(spec["limits"])
        if spec.get("enhanced"):
            # records of a complex structure: the positions come with the format ("name<-0.1")
            kw.pop("fields", None)
            recs = [(tuple(r[:2]), {"k": r[2] if len(r) > 2 else None}, _Attr(r[-1])) for r in spec["records"]]
        if spec.get("skip_columns"):
            kw["skip_columns"] = list(spec["skip_columns"])
        tcls = LegendTable if spec.get("usersub") else PPTable
        t = tcls(recs, header=spec.get("header"), footer=spec.get("footer"), fmt=spec.get("fmt"), **kw)
        if spec.get("via_fmt_obj"):
            # a second table constructed from the format object of the first one
            t = tcls(recs, header=spec.get("header"), footer=spec.get("footer"), fmt_obj=t.fmt)
        return Built(k, t, spec, recs)
    if k == "ppwrap":
        return Built(k, akppobj.PPWrap(decode_value(spec["value"])), spec)
    if k == "recfmt":
        recs = _records(spec)
        kw = {}
        if spec.get("types"):
            kw["fields_types"] = {n: enums[i] for n, i in spec["types"].items()}
        f = PPRecordFmt(spec["fmt"], fields=list(spec["fields"]), **kw)
        # the first record fixes ranged widths by design: prime with the designated one
        f(recs[0], no_color=True, colors_conf=ColorsConfig({}))
        return Built(k, f, spec, recs)
    if k == "ghist":
        coll = fakegit.make_collection(spec["repo"])
        if spec.get("shared_fmt"):
            # one formatter object serving all the reports of the application (make_report's own argument)
            global _SHARED_REPORT_FORMATTER
            if _SHARED_REPORT_FORMATTER is None:
                _SHARED_REPORT_FORMATTER = akghist.ReportFormatter()
            return Built(k, coll.make_report(spec["bug"], report_formatter=_SHARED_REPORT_FORMATTER), spec)
        return Built(k, coll.make_report(spec["bug"]), spec)
    if k == "hdoc":
        return Built(k, hdoc_object(spec["what"]), spec)
    raise ValueError(k)


def build_sibling(src, spec, limits, skip):
    """a second table made from the format object of a live one (fmt_obj=other.fmt), with its own records,
    optionally its own limits and skipped columns.  spec: the description of the equal fresh table"""
    recs = _records(spec)
    kw = {}
    if limits is not None:
        kw["limits"] = tuple(limits)
    if skip:
        kw["skip_columns"] = list(skip)
    tcls = LegendTable if spec.get("usersub") else PPTable
    t = tcls(recs, header=spec.get("header"), footer=spec.get("footer"), fmt_obj=src.obj.fmt, **kw)
    return Built("table", t, spec, recs)


class Rendering:
    """one requested rendering: result object + optional line iterator"""
    __slots__ = ("built", "mode", "res", "it", "lines", "done", "hcmd")

    def __init__(self, built, mode):
        self.built = built
        self.mode = mode
        self.res = None
        self.it = None
        self.lines = []
        self.done = False
        self.hcmd = None


def start_rendering(built, conf, mode):
    """request a rendering: the palette is resolved NOW, text is produced lazily.

    conf: ColorsConfig to pass explicitly, or None = use the global one."""
    r = Rendering(built, mode)
    no_color = bool(mode.get("no_color"))
    pal = mode.get("palette")
    palette = None
    colors_conf = conf
    if pal:
        pcls = PALETTES[pal["cls"]]
        if pal.get("synced"):
            # a palette object that follows the global configuration
            palette = pcls(synced=True)
            colors_conf = None
        elif pal.get("obj"):
            palette = pcls(conf) if conf is not None else pcls()
            colors_conf = None
        else:
            palette = pcls
    k = built.kind
    if k == "pp":
        r.res = built.obj(built.records, palette=palette, no_color=no_color, colors_conf=colors_conf)
    elif k in ("table", "ghist", "userbox", "usernote"):
        r.res = built.obj.ch_text(palette=palette, no_color=no_color, colors_conf=colors_conf)
    elif k == "recfmt":
        rec = built.records[mode.get("rec", 0) % len(built.records)]
        r.res = built.obj(rec, palette=palette, no_color=no_color, colors_conf=colors_conf)
    elif k == "hdoc":
        # console help takes its colours from the global configuration when the command object is made
        r.hcmd = HCommand(built.spec.get("level", 1))
    elif k == "ppwrap":
        pass            # str(obj) renders under the global configuration at that moment
    else:
        raise ValueError(k)
    return r


def whole_text(r, how="str"):
    k = r.built.kind
    if k == "ppwrap":
        if r.mode.get("via_repr") and not r.mode.get("how_ref"):
            # repr() prints the text (and returns an empty string): what arrives on stdout
            import contextlib
            import io
            buf = io.StringIO()
            with contextlib.redirect_stdout(buf):
                shown = repr(r.built.obj)
            out = buf.getvalue()
            if shown != "" or not out.endswith("\n"):
                raise ValueError(f"repr(PPWrap) returned {shown!r} and printed {out[-20:]!r}")
            return akcolor_strip_if(out[:-1], how)
        return akcolor_strip_if(str(r.built.obj), how)
    if how == "dunder":
        # PPObj.__str__: the global configuration in force now
        return str(r.built.obj)
    if k == "hdoc":
        text = r.hcmd._make_help_text(r.built.obj)
        return akcolor_strip_if(text, how)
    if k == "recfmt":
        if how == "plain":
            return r.res.ch_text().plain_text()
        if how == "chtext":
            return str(r.res.ch_text())
        return str(r.res)
    if how == "plain":
        return r.res.plain_text()
    return str(r.res)


def akcolor_strip_if(text, how):
    if how == "plain":
        from .models import sgr
        return sgr.strip(text)
    return text


def poke(r, what):
    """operations on a lazy result that must leave it unchanged (it memoises its text)"""
    res = r.res
    if what == "len":
        return len(res)
    if what == "add":
        return str(res + "x") + str("y" + res)
    if what == "slice":
        return str(res[1:4]) + str(res[-3:])
    if what == "fixed":
        x = res.fixed_len(len(res))
        x += "!"
        return str(x)
    if what == "fixed2":
        x = res.fixed_len(len(res) + 2)
        x += "!"
        return str(x)
    if what == "fmt":
        return format(res, "^5") + format(res, "_>300")
    if what == "getch":
        c = res.get_ch_text()
        c += "zz"
        return str(c)
    if what == "iadd":
        y = res
        y += "x"
        return str(y)
    if what == "eq":
        # a result equals itself and the text it stands for, whichever side it is on
        c = res.get_ch_text()
        if not (res == res and res == c and c == res):
            raise ValueError(f"a result and its own text do not compare equal: {res == res}, {res == c}, {c == res}")
        return True
    raise ValueError(what)


def poke_columns(r):
    """the caller of a record formatter goes on working with the column texts it was handed (they are its own
    objects now): appends a mark to each, in place"""
    res = r.res
    for i, col in enumerate(res.columns):
        col += f" <{i}"
    for name in list(res.cols_by_name):
        res.cols_by_name[name] += "!"
    return str(res)


def line_iter(r):
    k = r.built.kind
    if k == "usernote":
        return iter([r.res.get_ch_text()])       # implements make_ch_text only: one piece
    if k == "ppwrap":
        return iter(str(r.built.obj).split("\n"))
    if k == "hdoc":
        return r.hcmd._gen_ch_lines(r.built.obj, HCommand._DFLT_FILT_ARG, r.hcmd.dets_level, False)
    if k == "recfmt":
        return iter([r.res.ch_text()])
    return iter(r.res)


def line_to_str(line):
    # "consuming a result line by line": what print(line) shows.  (Until the repair recorded in
    # known_findings.txt tables yielded bare lists of chunks for title and record lines.)
    return str(line)
