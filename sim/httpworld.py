"""HTTP world shared by C16 and C17: instrumented loading of the connection
modules, the in-process fake transport with fault injection, construction of
connection DAGs from JSON specs, and execution of request ops."""

import collections.abc
import base64
import copy
import email.message
import http.client
import io
import json
import random as _random
import socket
import sys
import time as _real_time
import urllib.error
import urllib.request

from . import threadsim
from .core import bootstrap_repo

MODULES = ("ak.conn_http", "ak.mcaller", "ak.mcaller_http")

conn_http = None
mcaller = None
mcaller_http = None


def init_zygote():
    """Import the modules under test, instrumented, once per zygote process."""
    global conn_http, mcaller, mcaller_http
    if conn_http is not None:
        return
    bootstrap_repo()
    # the network is a stub: loading the system CA bundle (44 ms per opener) is pointless
    import ssl
    ssl.SSLContext.load_default_certs = lambda self, *a, **k: None
    conn_http = threadsim.load_instrumented("ak.conn_http")
    mcaller = threadsim.load_instrumented("ak.mcaller")
    mcaller_http = threadsim.load_instrumented("ak.mcaller_http")


# --------------------------------------------------------------------------
# transport

FAULT_KINDS = ("http_error", "url_error", "timeout", "reset_on_open", "remote_disconnected",
               "reset_on_read", "truncated", "not_utf8", "not_json", "empty_body")
# faults after which no value may be returned whatever the response mode
HARD_FAULTS = ("http_error", "url_error", "timeout", "reset_on_open", "remote_disconnected",
               "reset_on_read", "truncated")


class FakeResponse(io.BytesIO):
    """What OpenerDirector.open returns: file-like, context manager, headers."""

    def __init__(self, method, code, body, headers=(), read_fault=None):
        super().__init__(body)
        self._method = method
        self.code = code
        self.status = code
        self._hdrs = list(headers)
        self._read_fault = read_fault
        self.token = None

    def getheaders(self):
        return list(self._hdrs)

    def read(self, *a):
        if self._read_fault == "reset_on_read":
            raise ConnectionResetError(104, "Connection reset by peer (injected)")
        if self._read_fault == "truncated":
            part = super().read(*a)
            raise http.client.IncompleteRead(part[: len(part) // 2], len(part))
        return super().read(*a)


_TRANSPORT = None


def current_op():
    """the op in flight in the calling (simulated or main) thread"""
    tr = _TRANSPORT
    if tr is None:
        return None
    return tr._cur()[1]


class Transport:
    """The only network the code under test sees.

    Every request handed to any OpenerDirector is recorded (plain data) with a
    global event sequence number, then answered according to the `net` plan of
    the op that is in flight in the calling thread."""

    def __init__(self, log):
        self.log = log
        self.seq = 0
        self.requests = []      # dicts, in arrival order
        self.fired = {}         # fault kind -> count
        self.in_flight = 0
        self.max_in_flight = 0
        self.sim = None
        self.cur_op_fallback = None   # op in flight when no simulated thread exists

    def install(self):
        global _TRANSPORT
        _TRANSPORT = self
        tr = self

        def _open(opener, request, data=None, timeout=None):
            return tr.handle(request)
        urllib.request.OpenerDirector.open = _open

    def _cur(self):
        sim = self.sim
        if sim is not None:
            t = sim.cur_thread()
            if t is not None:
                return t, t.cur_op
        return None, self.cur_op_fallback

    def handle(self, request):
        t, op = self._cur()
        self.seq += 1
        hdrs = sorted((k, v.decode("latin-1") if isinstance(v, bytes) else v)
                      for k, v in request.header_items())
        rec = {
            "seq": self.seq,
            "thread": t.idx if t is not None else -1,
            "opk": op.get("k") if op else None,
            "url": request.full_url,
            "method": request.get_method(),
            "headers": hdrs,
            "data": request.data,
            "data_type": type(request.data).__name__,
            "raw_headers": {k: v for k, v in request.header_items()},
        }
        self.requests.append(rec)
        if op is not None:
            op.setdefault("_seen", []).append(rec)
        self.log.add("req", rec["seq"], rec["thread"], rec["opk"], rec["url"],
                     rec["method"], hdrs, rec["data"])
        net = (op or {}).get("net") or {}
        lat = net.get("lat", 0)
        self.in_flight += 1
        if self.in_flight > self.max_in_flight:
            self.max_in_flight = self.in_flight
        try:
            if t is not None:
                for _ in range(lat):
                    self.sim.net_yield(t)
        finally:
            self.in_flight -= 1
        fault = net.get("fault")
        if fault:
            self.fired[fault] = self.fired.get(fault, 0) + 1
        method = rec["method"]
        body = net.get("body", "")
        if isinstance(body, str):
            body_b = body.encode("utf-8")
        else:
            body_b = bytes(body)
        rh = [("Content-Type", "application/json"), ("X-Sim-Seq", str(rec["seq"]))]
        if fault == "http_error":
            code = net.get("code", 500)
            fp = FakeResponse(method, code, body_b, rh)
            msg = email.message.Message()
            for k, v in rh:
                msg[k] = v
            raise urllib.error.HTTPError(rec["url"], code, "injected", msg, fp)
        if fault == "url_error":
            raise urllib.error.URLError("injected: name resolution failed")
        if fault == "timeout":
            raise socket.timeout("injected: timed out")
        if fault == "reset_on_open":
            # raised by getresponse() inside urllib's do_open: reaches the caller unwrapped
            raise ConnectionResetError(104, "Connection reset by peer (injected)")
        if fault == "remote_disconnected":
            raise http.client.RemoteDisconnected("Remote end closed connection without response (injected)")
        if fault in ("reset_on_read", "truncated"):
            resp = FakeResponse(method, 200, body_b, rh, read_fault=fault)
        elif fault == "not_utf8":
            resp = FakeResponse(method, 200, b"\xff\xfe{\x80", rh)
        elif fault == "not_json":
            resp = FakeResponse(method, 200, b"<html>not json</html>", rh)
        elif fault == "empty_body":
            resp = FakeResponse(method, 200, b"", rh)
        else:
            resp = FakeResponse(method, net.get("code", 200), body_b, rh)
        resp.token = rec["seq"]
        return resp


# --------------------------------------------------------------------------
# harness adapters (C17)

def make_adapter_classes():
    RA = conn_http.RequestAdapter

    class HeaderAdder(RA):
        """adds one unique header; never touches anything else"""

        def __init__(self, name, value):
            self.name = name
            self.value = value

        def process_req_args(self, req_args):
            req_args.headers[self.name] = self.value

        def mk_descr(self):
            return f"hdr {self.name}"

    class RespWrapper(RA):
        """non-commutative response processor: order of application shows"""

        def __init__(self, tag):
            self.tag = tag

        def process_response(self, return_value):
            return {"by": self.tag, "inner": return_value}

        def mk_descr(self):
            return f"wrap {self.tag}"

    class DropBody(RA):
        """a response processor whose legitimate result is None"""

        def __init__(self, tag):
            self.tag = tag

        def process_response(self, return_value):
            return None

        def mk_descr(self):
            return f"drop {self.tag}"

    class FailingAdapter(RA):
        """a user's adapter that raises when the op in flight says so: before the request is sent
        (process_req_args) or while the response is processed (process_response)"""

        def __init__(self, name="X-Fail-Ad", value="1"):
            self.name = name
            self.value = value

        def process_req_args(self, req_args):
            req_args.headers[self.name] = self.value       # it also does something useful
            op = current_op()
            if op is not None and op.get("adfail") == "pre":
                raise RuntimeError("injected: adapter failed before the request was sent")

        def process_response(self, return_value):
            op = current_op()
            if op is not None and op.get("adfail") == "post":
                raise RuntimeError("injected: adapter failed while processing the response")
            return return_value

        def mk_descr(self):
            return "failing"

    class NestedCaller(RA):
        """a user's adapter that issues a request of its own (e.g. fetches a token) through another
        connection over the same underlying connection, from inside process_req_args"""

        def __init__(self, inner, path="/nested"):
            self.inner = inner
            self.path = path

        def process_req_args(self, req_args):
            self.inner.get(self.path)

    HeaderAdder.DropBody = DropBody
    HeaderAdder.FailingAdapter = FailingAdapter
    HeaderAdder.NestedCaller = NestedCaller
    return HeaderAdder, RespWrapper


def make_adapter(spec, classes):
    HeaderAdder, RespWrapper = classes
    k = spec["a"]
    if k == "hdr":
        cls = HeaderAdder
        if spec.get("nodescr"):
            cls = _nodescr(HeaderAdder)
        if spec.get("rebind"):
            cls = _rebinding(cls)
        if spec.get("falsy"):
            # an application adapter that is also a container (its session values live in it) and is empty - falsy -
            # when it is attached
            cls = type("SessionHeaders", (dict, cls), {"__doc__": "an adapter that is a (still empty) dict as well",
                                                       "__hash__": object.__hash__,
                                                       "__init__": lambda self, name, value: HeaderAdder.__init__(self, name, value)})
        return cls(spec["name"], spec["value"])
    if k == "wrap":
        cls = RespWrapper
        if spec.get("nodescr"):
            cls = _nodescr(RespWrapper)
        return cls(spec["tag"])
    if k == "prefix":
        return conn_http.RequestAdapterAddPathPrefix(spec["prefix"])
    if k == "drop":
        return HeaderAdder.DropBody(spec["tag"])
    if k == "fail":
        return HeaderAdder.FailingAdapter(spec.get("name", "X-Fail-Ad"), spec.get("value", "1"))
    if k == "auth":
        kind = spec["kind"]
        if kind == "bauth":
            return conn_http.BAuthConn.Adapter(spec["login"], spec["password"])
        if kind == "client":
            return conn_http.ClientAuthConn.Adapter(spec["client_name"], spec["client_id"], spec["client_secret"])
        if kind == "token":
            return conn_http.TokenAuthConn.Adapter(spec["token"], spec.get("token_descr"))
    raise ValueError(k)


_ND = {}
_RB = {}


def _rebinding(cls):
    """the same header adapter written the other natural way: it assigns a new mapping (same type, same items plus
    its own) to req_args.headers instead of changing the one that is there"""
    if cls not in _RB:
        def process_req_args(self, req_args):
            merged = copy.copy(req_args.headers)
            merged[self.name] = self.value
            req_args.headers = merged
        _RB[cls] = type(cls.__name__ + "RB", (cls,), {"process_req_args": process_req_args})
    return _RB[cls]


def _nodescr(cls):
    """the same adapter without a description of its own (mk_descr of the base class: None)"""
    if cls not in _ND:
        _ND[cls] = type(cls.__name__ + "ND", (cls,), {"mk_descr": conn_http.RequestAdapter.mk_descr})
    return _ND[cls]


def b64cred(a, b):
    return "Basic " + base64.b64encode(f"{a}:{b}".encode("utf-8")).decode("ascii")


class _Sink(__import__("logging").Handler):
    def emit(self, record):
        try:
            record.getMessage()         # format the message like a real handler would
        except Exception:
            pass


def set_debug_logging(on):
    """the logging level is part of the configuration a run draws: with DEBUG on, the library's
    request/response logging code actually runs (into a sink)"""
    import logging
    for name in ("ak.conn_http", "ak.mcaller", "ak.mcaller_http"):
        lg = logging.getLogger(name)
        lg.propagate = False
        lg.handlers[:] = [_Sink()]
        lg.setLevel(logging.DEBUG if on else logging.WARNING)


class TimeShim:
    """The clock as the code under test sees it, should it ever look: simulated, strictly increasing, advanced
    by sleep() - which costs nothing and is a scheduling point.  Bound in place of the `time` module (or of
    functions imported from it) in the instrumented modules; the unchanged tree does not use the clock at all."""

    EPOCH = 1_700_000_000.0

    def __init__(self):
        self.now = self.EPOCH
        self.sleeps = 0

    def _tick(self):
        self.now += 1e-6
        return self.now

    def time(self):
        return self._tick()

    def monotonic(self):
        return self._tick() - self.EPOCH + 1000.0

    perf_counter = monotonic

    def time_ns(self):
        return int(self._tick() * 1e9)

    def monotonic_ns(self):
        return int(self.monotonic() * 1e9)

    def sleep(self, seconds):
        self.now += max(0.0, float(seconds))
        self.sleeps += 1
        sim = threadsim._SIM
        t = sim.by_ident.get(threadsim._thread.get_ident()) if sim is not None else None
        if t is not None:
            sim.net_yield(t)

    def __getattr__(self, name):
        return getattr(_real_time, name)


def _bind_clock(clock):
    fns = {_real_time.time: clock.time, _real_time.monotonic: clock.monotonic, _real_time.sleep: clock.sleep,
           _real_time.perf_counter: clock.perf_counter, _real_time.time_ns: clock.time_ns,
           _real_time.monotonic_ns: clock.monotonic_ns}
    for mod in (conn_http, sys.modules.get("ak.mcaller_http"), sys.modules.get("ak.mcaller")):
        if mod is None:
            continue
        for name, val in list(vars(mod).items()):
            if val is _real_time or isinstance(val, TimeShim):
                vars(mod)[name] = clock
            else:
                try:
                    new = fns.get(val)
                except TypeError:
                    new = None
                if new is not None:
                    vars(mod)[name] = new
                elif getattr(val, "__self__", None).__class__ is TimeShim:
                    vars(mod)[name] = getattr(clock, val.__name__)


def install_seams(rng_seed, log):
    """Replace the nondeterminism seams of ak.conn_http for this run."""
    shim = threadsim.ThreadingShim()
    conn_http.threading = shim
    conn_http.random = _random.Random(rng_seed)
    _bind_clock(TimeShim())
    tr = Transport(log)
    tr.install()
    return shim, tr


class CIHeaders(collections.abc.MutableMapping):
    """a caller's own headers mapping: case-insensitive names (like the one of the requests library),
    with a copy() that keeps the type"""

    def __init__(self, items=()):
        self._d = {}
        for k, v in dict(items).items():
            self[k] = v

    def __setitem__(self, k, v):
        self._d[k.lower()] = (k, v)

    def __getitem__(self, k):
        return self._d[k.lower()][1]

    def __delitem__(self, k):
        del self._d[k.lower()]

    def __iter__(self):
        return (k for k, _ in self._d.values())

    def __len__(self):
        return len(self._d)

    def copy(self):
        return CIHeaders(self.items())
