"""vcheck entry point.

  vcheck <Cxx> [--tier quick|thorough] [--runs N] [--budget-s S] [--workers W]
  vcheck <Cxx> --replay FILE
  vcheck setup | selftest-determinism [props...] | _worker ...

exit 0: property held on everything explored (KNOWN-FINDING lines allowed)
exit 1: `VIOLATION property=<id> replay=<path>` printed
exit 2: `ERROR ...` harness problem (never counts as a pass)
"""

import argparse
import importlib
import json
import os
import selectors
import subprocess
import sys
import time

from . import core, reach
from .core import OK, VIOLATION, HARNESS_ERROR

PROPS = ("C08", "C10", "C13", "C14", "C16", "C17")
HASHSEEDS = ("0", "1", "7", "4242")
RECHECK_HASHSEED = "99"

TIERS = {
    # tier: (default run cap, default exploration budget seconds, determinism recheck runs)
    "quick": (1_000_000, 32.0, 150),
    "thorough": (50_000_000, 600.0, 600),
}


def load_prop(pid):
    return importlib.import_module(f"sim.props.{pid.lower()}")


# --------------------------------------------------------------------------
# worker

def worker_main(argv):
    ap = argparse.ArgumentParser()
    ap.add_argument("--prop", required=True)
    ap.add_argument("--base", type=int, required=True)
    ap.add_argument("--start", type=int, required=True)
    ap.add_argument("--stride", type=int, required=True)
    ap.add_argument("--end", type=int, required=True)
    ap.add_argument("--deadline", type=float, required=True)
    ap.add_argument("--tier", default="quick")
    ap.add_argument("--samples", type=int, default=0)
    ap.add_argument("--wall", type=float, default=90.0)
    a = ap.parse_args(argv)
    # baton-passing threads hand over much faster when they share one core
    try:
        cpus = sorted(os.sched_getaffinity(0))
        os.sched_setaffinity(0, {cpus[a.start % len(cpus)]})
    except (AttributeError, OSError):
        pass
    prop = load_prop(a.prop)
    prop.init_zygote()
    reach.worker_init(core.AK_REPO)
    out = sys.stdout
    stats = {}
    n = 0
    i = a.start
    nsamp = 0
    while i < a.end and time.time() < a.deadline:
        seed = core.derive_seed(a.base, a.prop, i)
        want = nsamp < a.samples
        res = core.run_in_child(lambda s: _run_seed(prop, s, a.tier, want), seed, a.wall)
        st = res.get("status", HARNESS_ERROR)
        for k, v in (res.get("stats") or {}).items():
            stats[k] = stats.get(k, 0) + v
        rec = {"i": i, "s": st, "d": res.get("digest"), "c": res.get("case"),
               "nt": 1 if res.get("nontrivial") else 0, "steps": res.get("sim_steps", 0),
               "nops": res.get("nops", 0)}
        if st != OK:
            rec["res"] = {k: res.get(k) for k in ("oracle", "klass", "detail", "trace")}
        elif want and "trace" in res:
            rec["sample"] = res["trace"]
            nsamp += 1
        out.write(json.dumps(rec, default=core._json_default) + "\n")
        n += 1
        if n % 50 == 0:
            out.flush()
        i += a.stride
    reach.worker_dump(a.prop)
    meta = prop.batch_meta() if hasattr(prop, "batch_meta") else {}
    out.write(json.dumps({"done": True, "stats": stats, "n": n, "meta": meta}) + "\n")
    out.flush()
    return 0


def _run_seed(prop, seed, tier, want):
    return core.run_seed(prop, seed, tier, want)


# --------------------------------------------------------------------------
# batch of workers

def run_batch(pid, base, tier, first, end, deadline, workers, hashseeds, samples=0, on_rec=None,
              stop_after_violations=6):
    """Run indices [first, end) striped over `workers` fresh interpreters."""
    procs = []
    sel = selectors.DefaultSelector()
    env0 = dict(os.environ)
    env0["PYTHONDONTWRITEBYTECODE"] = "1"
    env0["TZ"] = "UTC"
    for k in range(workers):
        env = dict(env0)
        env["PYTHONHASHSEED"] = hashseeds[k % len(hashseeds)]
        cmd = [sys.executable, "-m", "sim.cli", "_worker", "--prop", pid, "--base", str(base),
               "--start", str(first + k), "--stride", str(workers), "--end", str(end),
               "--deadline", str(deadline), "--tier", tier,
               "--samples", str(samples if k == 0 else 0)]
        p = subprocess.Popen(cmd, stdout=subprocess.PIPE, stderr=subprocess.PIPE, env=env,
                             cwd=core.VERIF_DIR)
        os.set_blocking(p.stdout.fileno(), False)
        os.set_blocking(p.stderr.fileno(), False)
        sel.register(p.stdout, selectors.EVENT_READ, (k, "out"))
        sel.register(p.stderr, selectors.EVENT_READ, (k, "err"))
        procs.append(p)
    bufs = {(k, s): b"" for k in range(workers) for s in ("out", "err")}
    agg = {"stats": {}, "n": 0, "done": 0, "violations": [], "harness": [], "stderr": []}
    open_streams = 2 * workers
    # a hung child is killed by its worker after `--wall` seconds (its traceback goes to stderr
    # one second earlier); only then give up on the worker itself
    hard_deadline = deadline + 90.0 + 45.0
    stopping = False
    while open_streams > 0:
        if time.time() > hard_deadline:
            agg["harness"].append({"detail": "batch exceeded hard deadline; workers killed"})
            break
        for key, _ in sel.select(timeout=1.0):
            k, s = key.data
            try:
                data = key.fileobj.read()
            except BlockingIOError:
                continue
            if not data:
                sel.unregister(key.fileobj)
                open_streams -= 1
                continue
            if s == "err":
                if len(agg["stderr"]) < 50:
                    agg["stderr"].append(data.decode("utf-8", "replace")[-3000:])
                continue
            buf = bufs[(k, s)] + data
            *lines, rest = buf.split(b"\n")
            bufs[(k, s)] = rest
            for ln in lines:
                if not ln:
                    continue
                rec = json.loads(ln)
                if rec.get("done"):
                    agg["done"] += 1
                    for kk, v in rec["stats"].items():
                        agg["stats"][kk] = agg["stats"].get(kk, 0) + v
                    agg.setdefault("meta", {}).update(rec.get("meta") or {})
                    continue
                agg["n"] += 1
                if rec["s"] == VIOLATION:
                    agg["violations"].append(rec)
                elif rec["s"] != OK:
                    agg["harness"].append({"i": rec["i"], "detail": (rec.get("res") or {}).get("detail")})
                if on_rec is not None:
                    on_rec(rec)
        if not stopping and (len(agg["violations"]) >= stop_after_violations or len(agg["harness"]) >= 20):
            stopping = True
            for p in procs:
                if p.poll() is None:
                    p.terminate()
    for p in procs:
        if p.poll() is None:
            p.kill()
        try:
            p.wait(timeout=10)
        except Exception:
            pass
    agg["stopped_early"] = stopping
    agg["workers_done"] = agg["done"]
    return agg


# --------------------------------------------------------------------------

def run_check(pid, tier, runs, budget_s, workers):
    t0 = time.time()
    prop = load_prop(pid)
    prop.init_zygote()        # main process is itself a zygote for shrinking/replay
    base = core.base_seed()
    cap, dflt_budget, recheck_n = TIERS[tier]
    if runs is None:
        runs = cap
    if budget_s is None:
        budget_s = dflt_budget
    if workers is None:
        workers = max(1, min(16, os.cpu_count() or 1))
    print(f"[{pid}] tier={tier} base_seed={base} workers={workers} budget={budget_s}s "
          f"repo={core.AK_REPO}", flush=True)

    cases_nt = set()
    digests = {}
    samples = []
    tot = {"steps": 0, "nt": 0, "nops": 0, "last_i": -1}

    def on_rec(rec):
        if rec["s"] == OK:
            if rec["nt"]:
                tot["nt"] += 1
                if rec.get("c"):
                    cases_nt.add(rec["c"])
            tot["steps"] += rec.get("steps") or 0
            tot["nops"] += rec.get("nops") or 0
        if rec["i"] < recheck_n:
            digests[rec["i"]] = (rec["s"], rec.get("d"))
        if rec["i"] > tot["last_i"]:
            tot["last_i"] = rec["i"]
        if "sample" in rec and len(samples) < 3:
            samples.append(rec["sample"])

    deadline = time.time() + budget_s
    agg = run_batch(pid, base, tier, 0, runs, deadline, workers, HASHSEEDS, samples=3, on_rec=on_rec)
    t_explore = time.time() - t0
    if os.environ.get("VERIF_DEBUG"):
        print(f"[debug] exploration done after {t_explore:.1f}s, violations={len(agg['violations'])}", flush=True)

    problems = []
    if agg["harness"]:
        problems.append(f"{len(agg['harness'])} harness errors, first: {agg['harness'][0]}; stderr: "
                        + " | ".join(agg["stderr"])[-3000:])
    if agg["workers_done"] < workers and not agg["stopped_early"]:
        problems.append(f"only {agg['workers_done']}/{workers} workers finished cleanly; stderr: "
                        + " | ".join(agg["stderr"])[-3000:])

    # ---- determinism re-check: same seeds, other workers, other hash seed
    det = {"checked": 0, "mismatch": 0}
    if not agg["violations"] and not problems:
        want = sorted(i for i in digests if i < recheck_n)
        if want:
            second = {}

            def on_rec2(rec):
                second[rec["i"]] = (rec["s"], rec.get("d"))
            w2 = max(1, min(workers, 4))
            agg2 = run_batch(pid, base, tier, 0, max(want) + 1, time.time() + max(20.0, budget_s),
                             w2, (RECHECK_HASHSEED,), on_rec=on_rec2)
            if agg2["harness"]:
                problems.append(f"determinism recheck: harness errors {agg2['harness'][:1]}")
            for i in want:
                if i in second:
                    det["checked"] += 1
                    if second[i] != digests[i]:
                        det["mismatch"] += 1
                        if det["mismatch"] <= 3:
                            problems.append(f"nondeterminism: run index {i} gave {digests[i]} then {second[i]}")

    # ---- violations: shrink, confirm, classify
    known = core.load_known_findings()
    try:
        # shrinking and confirming replays run in this process: same CPU for its baton-passing threads
        cpus = sorted(os.sched_getaffinity(0))
        os.sched_setaffinity(0, {cpus[-1]})
    except (AttributeError, OSError):
        pass
    shrink_deadline = time.monotonic() + (30.0 if tier == "quick" else 300.0)
    reported = []
    known_lines = []
    shrink_stats = []
    unconfirmed_hangs = []
    seen_sigs = set()
    for rec in agg["violations"]:
        res = rec["res"]
        sig = (res.get("oracle"), res.get("klass"))
        if sig in seen_sigs:
            continue
        seen_sigs.add(sig)
        trace = res.get("trace")
        if trace is None:
            problems.append(f"violation without trace at index {rec['i']}")
            continue
        if len(seen_sigs) > 4:
            break           # enough distinct signatures for one report
        sh = core.Shrinker(prop, trace, sig, budget=300 if tier == "quick" else 1500,
                           deadline=min(shrink_deadline, time.monotonic() + (15.0 if tier == "quick" else 120.0)))
        best = sh.run()
        if os.environ.get("VERIF_DEBUG"):
            print(f"[debug] shrink {sig} tried={sh.tried} kept={sh.kept} t={time.time() - t0:.1f}s", flush=True)
        conf1 = core.run_in_child(lambda t: core.replay_trace(prop, t), best)
        conf2 = core.run_in_child(lambda t: core.replay_trace(prop, t), best)
        shrink_stats.append({"sig": list(sig), "tried": sh.tried, "kept": sh.kept,
                             "ops_before": len(trace.get("ops", ())), "ops_after": len(best.get("ops", ())),
                             "sched_before": len(trace.get("schedule", ()) or ()),
                             "sched_after": len(best.get("schedule", ()) or ())})
        if sig == ("liveness", "operation-did-not-terminate") and conf1.get("status") == OK and conf2.get("status") == OK:
            # the CPU-time alarm fired on a run that terminates (twice, in fresh processes): on an overcommitted
            # (virtual) machine the time charged to a process can be many times what it used.  A real hang is a
            # property of the trace and hangs again on replay; this one is counted, not reported.
            unconfirmed_hangs.append({"run_index": rec["i"], "ops": len(trace.get("ops", ()))})
            continue
        if conf1.get("status") != VIOLATION or core.signature(conf1) != sig:
            problems.append(f"violation {sig} at index {rec['i']} did not reproduce on replay: "
                            f"{conf1.get('status')} {conf1.get('detail')}")
            continue
        if conf1.get("digest") != conf2.get("digest"):
            problems.append(f"violation {sig}: replay digests differ {conf1.get('digest')} {conf2.get('digest')}")
            continue
        kf = core.match_known(known, pid, conf1, best)
        payload = {
            "property": pid, "seed": trace.get("seed"), "base_seed": base, "run_index": rec["i"],
            "hashseed": os.environ.get("PYTHONHASHSEED"),
            "repo_tree_digest": core.repo_tree_digest(getattr(prop, "WATCH_FILES", ())),
            "expected_violation": {"oracle": conf1.get("oracle"), "klass": conf1.get("klass"),
                                   "detail": conf1.get("detail")},
            "event_log_digest": conf1.get("digest"),
            "trace": best,
            "original_trace_ops": len(trace.get("ops", ())),
        }
        if kf is not None:
            known_lines.append(f"KNOWN-FINDING: property={pid} {kf['what']}")
            continue
        path = core.write_replay(pid, trace.get("seed"), payload)
        reported.append((path, conf1))

    wall = time.time() - t0
    n = agg["n"]
    rph = int(n / max(t_explore, 1e-6) * 3600)
    stats = agg["stats"]
    faults = {k[6:]: v for k, v in stats.items() if k.startswith("fault.")}
    probes = {k: v for k, v in stats.items() if not k.startswith("fault.") and not k.startswith("pp.")}
    pp_cov = None
    totals = (agg.get("meta") or {}).get("pp_totals")
    if totals:
        pp_cov = {}
        for fn, n_instr in sorted(totals.items()):
            hit = sorted(int(k.rsplit(".", 1)[1]) for k in stats if k.startswith(f"pp.{fn}."))
            pp_cov[fn] = {"instructions": n_instr, "used_for_a_switch": len(hit),
                          "runs_switching_there_min": min((stats[f"pp.{fn}.{o}"] for o in hit), default=0)}
    evidence = {
        "property_id": pid,
        "tier": tier,
        "seed": base,
        "level": "exploration",
        "wall_s": round(wall, 2),
        "violations": len(reported),
        "coverage": {
            "evaluations": n,
            "distinct_nontrivial": len(cases_nt),
            "rule": prop.RULE,
            "samples": samples[:3] if samples else [{"note": "no sample captured"}],
            "nontrivial_runs": tot["nt"],
            "seeds": {"base": base, "first_index": 0, "last_index": tot["last_i"],
                      "derivation": "blake2b(base/property/index)"},
            "runs_per_hour": rph,
            "simulated_time": {"logical_scheduler_steps": tot["steps"] or stats.get("steps", 0),
                               "operations": tot["nops"],
                               "simulated_time_s": None,
                               "why_null": "no code under this property reads a clock or arms a timer; time is logical steps"},
            "faults_fired": faults,
            "probes": probes,
            "preemption_point_coverage": pp_cov,
            "workers": workers,
            "hashseeds": list(HASHSEEDS),
            "determinism_recheck": det,
            "shrink": shrink_stats,
            "unconfirmed_hang_alarms": unconfirmed_hangs,
            "known_findings_hit": known_lines,
            "real_vs_stub": getattr(prop, "REAL_VS_STUB", None),
            "engine": getattr(prop, "ENGINE", None),
            "explore_wall_s": round(t_explore, 2),
            "problems": problems,
        },
        "assumptions": list(getattr(prop, "ASSUMPTIONS", ())),
    }
    # reach probes: a probe stuck at zero over a batch makes the check vacuous
    for probe in getattr(prop, "REQUIRED_PROBES", ()):
        if n >= 200 and not reported and not agg["violations"] and stats.get(probe, 0) == 0:
            problems.append(f"reach: probe '{probe}' stayed at zero over {n} runs")
    if n == 0:
        problems.append("no run completed")
    if len(cases_nt) < 2 and not reported and not agg["violations"]:
        problems.append(f"only {len(cases_nt)} distinct non-trivial cases")
    evidence["coverage"]["problems"] = problems
    core.write_evidence(pid, evidence)

    for ln in known_lines:
        print(ln)
    for path, conf in reported:
        print(f"  violated: {conf.get('oracle')}/{conf.get('klass')}: {str(conf.get('detail'))[:300]}")
        print(f"VIOLATION property={pid} replay={path}")
    print(f"[{pid}] runs={n} nontrivial_distinct={len(cases_nt)} runs/h={rph} steps={tot['steps']} "
          f"faults={faults} det={det} wall={wall:.1f}s", flush=True)
    if reported:
        return 1
    if problems:
        for p in problems:
            print(f"ERROR {pid}: {p}")
        return 2
    return 0


def run_replay(pid, path):
    prop = load_prop(pid)
    prop.init_zygote()
    payload = json.load(open(path, encoding="utf-8"))
    trace = payload.get("trace", payload)
    res = core.run_in_child(lambda t: core.replay_trace(prop, t), trace)
    res2 = core.run_in_child(lambda t: core.replay_trace(prop, t), trace)
    print(json.dumps({k: res.get(k) for k in ("status", "oracle", "klass", "detail", "digest")}, indent=1))
    if res.get("digest") != res2.get("digest"):
        print(f"ERROR {pid}: replay is not deterministic")
        return 2
    exp = payload.get("event_log_digest")
    if exp and res.get("digest") != exp:
        print(f"note: event-log digest differs from the recorded one ({exp}); the tree under test changed")
    if res.get("status") == VIOLATION:
        print(f"VIOLATION property={pid} replay={path}")
        return 1
    if res.get("status") != OK:
        print(f"ERROR {pid}: {res.get('detail')}")
        return 2
    return 0


def main(argv=None):
    argv = list(sys.argv[1:] if argv is None else argv)
    if not argv:
        print(__doc__)
        return 2
    cmd = argv.pop(0)
    if cmd == "_worker":
        return worker_main(argv)
    if cmd == "setup":
        from . import selftest
        return selftest.setup_smoke()
    if cmd == "selftest-determinism":
        from . import selftest
        return selftest.determinism(argv)
    if cmd == "selftest-sensitivity":
        from . import selftest
        return selftest.sensitivity(argv)
    pid = cmd.upper()
    if pid not in PROPS:
        print(f"ERROR unknown property {cmd}")
        return 2
    ap = argparse.ArgumentParser()
    ap.add_argument("--tier", default=os.environ.get("VERIF_TIER", "quick"))
    ap.add_argument("--runs", type=int)
    ap.add_argument("--budget-s", type=float)
    ap.add_argument("--workers", type=int)
    ap.add_argument("--replay")
    a = ap.parse_args(argv)
    if a.tier not in TIERS:
        a.tier = "quick"
    if a.replay:
        return run_replay(pid, a.replay)
    return run_check(pid, a.tier, a.runs, a.budget_s, a.workers)


if __name__ == "__main__":
    try:
        rc = main()
    except SystemExit:
        raise
    except BaseException:
        import traceback
        traceback.print_exc()
        print("ERROR harness crashed")
        rc = 2
    sys.exit(rc)
