"""Sensitivity catalogue: small source mutations that break one property while
the repository still imports and (verified by `vcheck selftest-sensitivity
--with-tests`) still passes its own test-suite.  Each is applied to a scratch
copy under $TMPDIR, never to /repo."""

CATALOGUE = [
    # ------------------------------------------------------------------ C16
    dict(id="m16_nolock", prop="C16", file="ak/conn_http.py",
         old="""        with self._reqid_generator_guard:
            next_req_id = self._cur_req_id
            self._cur_req_id += 1
""",
         new="""        next_req_id = self._cur_req_id
        self._cur_req_id += 1
""", note="lock removed: lost update needs a pre-emption between read and write"),
    dict(id="m16_split", prop="C16", file="ak/conn_http.py",
         old="""            next_req_id = self._cur_req_id
            self._cur_req_id += 1
""",
         new="""            next_req_id = self._cur_req_id
        self._cur_req_id = next_req_id + 1
""", note="read under the lock, increment outside it"),
    dict(id="m16_fresh_lock", prop="C16", file="ak/conn_http.py",
         old="        with self._reqid_generator_guard:\n",
         new="        with threading.Lock():\n", note="a new lock per call excludes nobody"),
    dict(id="m16_id_before_test", prop="C16", file="ak/conn_http.py",
         old="""            if 'X-Request-ID' not in headers:
                headers['X-Request-ID'] = self._generate_request_id()
""",
         new="""            new_req_id = self._generate_request_id()
            if 'X-Request-ID' not in headers:
                headers['X-Request-ID'] = new_req_id
""", note="a caller-supplied id consumes a number"),
    dict(id="m16_check_then_act", prop="C16", file="ak/conn_http.py",
         old="""        with self._reqid_generator_guard:
            next_req_id = self._cur_req_id
            self._cur_req_id += 1
""",
         new="""        next_req_id = self._cur_req_id
        with self._reqid_generator_guard:
            self._cur_req_id = next_req_id + 1
""", note="read outside, write inside the lock"),
    dict(id="m16_wrap_collision", prop="C16", file="ak/conn_http.py",
         old='            "{:012}".format(next_req_id))\n',
         new='            "{:012}".format(next_req_id%10000))\n',
         note="ids repeat after 10000 requests: needs the long warm-up runs"),
    # ------------------------------------------------------------------ C17
    dict(id="m17_clone_list", prop="C17", file="ak/mcaller_http.py",
         old="        elif not isinstance(http_conn_adapters, (list, tuple)):\n",
         new="        elif isinstance(http_conn_adapters, (list, tuple)):\n",
         note="the original defect (fixed in 0a3a5fa)"),
    dict(id="m17_headers_nocopy", prop="C17", file="ak/conn_http.py",
         old="        self.headers = headers.copy() if headers else {}\n",
         new="        self.headers = headers if headers else {}\n",
         note="caller's header dict receives Authorization / X-Request-ID / Content-Type"),
    dict(id="m17_caller_list_grows", prop="C17", file="ak/conn_http.py",
         old="        self.adapters = self.own_adapters + self.parent_conn.adapters\n",
         new="        self.adapters = self.own_adapters\n        self.adapters += self.parent_conn.adapters\n",
         note="the caller's adapter list is extended in place; add_adapter then leaks into it too"),
    dict(id="m17_parent_list_shared", prop="C17", file="ak/conn_http.py",
         old="        self.adapters = self.own_adapters + self.parent_conn.adapters\n",
         new="        self.adapters = self.parent_conn.adapters\n        self.adapters[0:0] = self.own_adapters\n",
         note="child and parent share one list: deriving alters requests through the original"),
    dict(id="m17_resp_order", prop="C17", file="ak/conn_http.py",
         old="        for adapter in adapters[::-1]:\n",
         new="        for adapter in adapters:\n", note="response processors not reversed"),
    dict(id="m17_shared_prefix_cache", prop="C17", file="ak/mcaller_http.py",
         old="            conns_by_prefix = self._mc_conns_by_prefix\n",
         new="            conns_by_prefix = MCallerHttp.get_conn.__dict__.setdefault('cache', {})\n",
         note="per-caller cache of prefixed connections shared by all callers: clones reuse the original's connection"),
    dict(id="m17_prefix_double_slash", prop="C17", file="ak/conn_http.py",
         old="            suffix_path = suffix_path[1:]\n",
         new="            suffix_path = suffix_path[0:]\n", note="prefix ending with / + path starting with /"),
    dict(id="m17_content_type", prop="C17", file="ak/conn_http.py",
         old="                if 'Content-Type' not in headers:\n                    headers['Content-Type'] = 'application/json'\n",
         new="                headers['Content-Type'] = 'application/json'\n",
         note="preset Content-Type overridden for structured bodies"),
    dict(id="m17_add_adapter_leaks_up", prop="C17", file="ak/conn_http.py",
         old="        self.adapters.append(adapter)\n",
         new="        self.adapters.append(adapter)\n        self.parent_conn.adapters.append(adapter)\n",
         note="add_adapter on a derived connection changes the original"),
    dict(id="m17_query_unescaped", prop="C17", file="ak/conn_http.py",
         old="            path += \"?\" + urlencode(params)\n",
         new="            path += \"?\" + \"&\".join(f\"{k}={v}\" for k, v in dict(params).items())\n",
         note="params not url-encoded"),
    dict(id="m17_str_body_latin1", prop="C17", file="ak/conn_http.py",
         old="            req_data = str_data.encode(encoding='utf-8')\n",
         new="            req_data = str_data.encode(encoding='latin-1', errors='replace')\n",
         note="body encoding"),
    dict(id="m17_auth_twice_cached", prop="C17", file="ak/conn_http.py",
         old="        self.auth_type = next(\n",
         new="        self.own_adapters = list(self.own_adapters) * (2 if len(self.adapters) > 3 else 1)\n        self.adapters = self.own_adapters + self.parent_conn.adapters\n        self.auth_type = next(\n",
         note="own adapters applied twice, but only on chains longer than 3"),
    dict(id="m17_empty_json", prop="C17", file="ak/conn_http.py",
         old="            if ret_val:\n                ret_val = json.loads(ret_val)\n",
         new="            if ret_val and ret_val != 'null':\n                ret_val = json.loads(ret_val)\n",
         note="a JSON null body returned as the string 'null'"),
    # ------------------------------------------------------------------ C14
    dict(id="m14_dash_with_parent", prop="C14", file="ak/color.py",
         old="""            assert parent is None

        # "-" - the system color is requested explicitely (even if the parent
        # has some other color); "" - there is nothing to inherit the color from
        if self.fg_color in ["-", ""]:
            self.fg_color = None
        if self.bg_color in ["-", ""]:
            self.bg_color = None
""",
         new="""            assert parent is None
            if self.fg_color in ["-", ""]:
                self.fg_color = None
            if self.bg_color in ["-", ""]:
                self.bg_color = None
""", note="the original defect (fixed in 549c950)"),
    dict(id="m14_reentrant_sync", prop="C14", file="ak/color.py",
         old="""            if colors_conf.color_conf_component_is_registered(cls):
                # registration of a parent palette in the global config
                # updates all the synced palettes. The synced palette of this
                # class could have been among them - cls is registered already.
                return
""", new="", note="the original defect (fixed in c027611)"),
    dict(id="m14_mods_parent_wins", prop="C14", suite_catches=True, file="ak/color.py",
         old="            self.modifiers = {**parent.modifiers, **self.modifiers}\n",
         new="            self.modifiers = {**self.modifiers, **parent.modifiers}\n",
         note="modifiers merged parent over child"),
    dict(id="m14_dash_inherits", prop="C14", file="ak/color.py",
         old="""            if self.fg_color == "":
                self.fg_color = parent.fg_color
""",
         new="""            if self.fg_color in ("", "-"):
                self.fg_color = parent.fg_color
""", note="'-' inherits the parent's colour instead of selecting the terminal default"),
    dict(id="m14_poison_cant_resolve", prop="C14", file="ak/color.py",
         old="                        cant_resolve.update(path)\n",
         new="                        cant_resolve.update(self.syntax_map)\n",
         note="one unresolvable chain poisons every other pending chain of this pass"),
    dict(id="m14_user_overrides", prop="C14", file="ak/color.py",
         old="""            if synt_id in self.syntax_map:
                # properties of this syntax are defined already. Probably in
                # config file.
                continue
""",
         new="""            if synt_id in self.syntax_map and src_obj_descr != "user":
                # properties of this syntax are defined already. Probably in
                # config file.
                continue
""", note="a later user registration overrides the explicit configuration"),
    dict(id="m14_cache_reset_user_only", prop="C14", suite_catches=True, file="ak/color.py",
         old="        if any(synt_id not in self.syntax_map for synt_id in new_items):\n            self._cache = {}\n",
         new="        if src_obj_descr == \"user\" and any(synt_id not in self.syntax_map for synt_id in new_items):\n            self._cache = {}\n",
         note="component registrations no longer reset the palette cache: cached palettes go stale"),
    dict(id="m14_no_resync", prop="C14", suite_catches=True, file="ak/color.py",
         old="        if any_modifications and self is _GLOBAL_COLORS_CONF:\n",
         new="        if any_modifications and to_resolve and self is _GLOBAL_COLORS_CONF:\n",
         note="global palettes re-synced only when something was pending"),
    dict(id="m14_nocolor_late", prop="C14", suite_catches=True, file="ak/color.py",
         old="""                            syntax_color.resolve(
                                parent_syntax_color, self.no_color)
""",
         new="""                            syntax_color.resolve(
                                parent_syntax_color, False)
""", note="items resolved through a parent are coloured in a no_color configuration"),
    dict(id="m14_unknown_noeffects", prop="C14", suite_catches=True, file="ak/color.py",
         old="""        if syntax_color is None:
            syntax_color = self.syntax_map.get(self.DFLT_SYNTAX_ID)
        if syntax_color is None or syntax_color.color_fmt is None:
""",
         new="""        if syntax_color is None or syntax_color.color_fmt is None:
""", note="unknown ids get no-effects instead of the TEXT formatter"),
    dict(id="m14_sync_skips_accessors", prop="C14", file="ak/color.py",
         old="""        self.register_in_colors_conf(colors_conf)
        for accessor_name, synt_id in self._LOCAL_SYNTAX.items():
            color_fmt = colors_conf.get_color(synt_id)
""",
         new="""        if colors_conf.color_conf_component_is_registered(type(self)):
            return
        self.register_in_colors_conf(colors_conf)
        for accessor_name, synt_id in self._LOCAL_SYNTAX.items():
            color_fmt = colors_conf.get_color(synt_id)
""", note="a synced palette is refreshed only the first time it meets a configuration"),
    dict(id="m10_enum_hands_out_cached_list", prop="C10", file="ak/ppobj.py",
         old="        return list(ch_chunks), align\n",
         new="        return ch_chunks, align\n",
         note="the original defect (fixed in /repo): the enum field type returns the list it keeps in its cache"),
    dict(id="m10_shared_border_line", prop="C10", file="ak/ppobj.py",
         old="""        # 4. one more border_line
        yield CHText(border_line)
""",
         new="""        # 4. one more border_line
        yield border_line
""", note="the original defect (fixed in /repo): the very same line object is yielded again; a consumer that edited "
          "the lines it was handed gets it back edited"),
    dict(id="m13_set_limits_keeps_state", prop="C13", file="ak/ppobj.py",
         old="""            self.any_lines_skipped = None
            self.repr_structure.remove_columns([])
""",
         new="""            pass
""", note="the original defect (fixed in /repo): set_limits() on the format object of a printed table keeps the "
          "widths and the skipped-lines flag of the last print"),
    dict(id="m13_partial_widths", prop="C13", file="ak/ppobj.py",
         old="""                if widths[i] < col.max_width:
                    widths[i] = max(
                        widths[i], min(col.max_width, col.get_cell_text_len(rec))
                    )
""",
         new="""                if widths[i] < col.max_width:
                    widths[i] = max(
                        widths[i], min(col.max_width, col.get_cell_text_len(rec))
                    )
                    col.width = widths[i]
""", note="the original defect (fixed in /repo): widths are stored while the records are still being looked at; "
          "an exception at the first print leaves partial widths that count as final"),
    dict(id="m14_synced_report_stale", prop="C14", file="ak/color.py",
         old="""            color_fmt = colors_conf.get_color(synt_id)
            self._local_colors[accessor_name] = (synt_id, color_fmt)
            setattr(self, accessor_name, color_fmt)
""",
         new="""            color_fmt = colors_conf.get_color(synt_id)
            setattr(self, accessor_name, color_fmt)
""", note="the original defect (fixed in /repo): a synced palette refreshes its accessors only; make_report() "
          "and Palette.get_color() keep the formatters of the previous global configuration"),
    # ------------------------------------------------------------------ C08
    dict(id="m08_zero_flag_ignored", prop="C08", file="ak/color.py",
         old="        elif width_part.startswith('0'):\n",
         new="        elif width_part.startswith('00000'):\n",
         note="the original defect (fixed in /repo): the '0' flag of a width without a fill character is ignored"),
    dict(id="m08_make_keeps_empty_chunks", prop="C08", file="ak/color.py",
         old="        if not all(c.text for c in chunks_list):\n            chunks_list = [c for c in chunks_list if c.text]\n",
         new="",
         note="the original defect (fixed in /repo): CHText.make keeps pieces with empty text; such a text compares "
              "unequal to the same text built in any other way"),
    dict(id="m10_title_palette_without_parent", prop="C10", file="ak/ppobj.py",
         old="        PARENT_PALETTES = [FieldType.PALETTE_CLASS, ]\n\n        SYNTAX_DEFAULTS = {\n            # synt_id: default_color\n            'RECORD.TITLE'",
         new="        SYNTAX_DEFAULTS = {\n            # synt_id: default_color\n            'RECORD.TITLE'",
         note="the original defect (fixed in /repo): the title palette does not name the record palette as a parent"),
    dict(id="m08_result_operand_via_str", prop="C08", file="ak/color.py",
         old="        elif hasattr(other, 'get_ch_text'):\n",
         new="        elif hasattr(other, 'get_ch_text_'):\n",
         note="the original defect (fixed in /repo): a CHTextResult operand is converted with str(), its escape "
              "sequences become visible characters"),
    dict(id="m08_sibling_subclass_eq", prop="C08", file="ak/color.py",
         old="        if isinstance(other, CHText):\n            # (any CHText: objects of different derived classes are texts too)",
         new="        if isinstance(other, type(self)):\n            # (any CHText: objects of different derived classes are texts too)",
         note="the original defect (fixed in /repo): texts of two sibling subclasses of CHText never compare equal"),
    dict(id="m10_eq_returns_false", prop="C10", file="ak/color.py",
         old="            return len(self.chunks) == 1 and self.chunks[0] == other\n\n        return NotImplemented\n\n    def __iadd__(self, other):",
         new="            return len(self.chunks) == 1 and self.chunks[0] == other\n\n        return False\n\n    def __iadd__(self, other):",
         note="CHText.__eq__ answers False for operands it does not know: text == result never reaches CHTextResult.__eq__"),
    dict(id="m08_subclass_operand", prop="C08", file="ak/color.py",
         old="        elif isinstance(other, CHText):\n            # (any CHText: an object of a derived class",
         new="        elif isinstance(other, type(self)):\n            # (any CHText: an object of a derived class",
         note="the original defect (fixed in /repo): a text of a derived class converts a base-class operand with str()"),
    dict(id="m08_fixed_len_self", prop="C08", file="ak/color.py",
         old="        return type(self)(self)  # the result must not share state with self\n",
         new="        return self\n", note="the original defect (fixed in /repo)"),
    dict(id="m08_self_append", prop="C08", file="ak/color.py",
         old="            for part in other.chunks[:]:\n",
         new="            for part in other.chunks:\n", note="the original defect: x += x never terminates"),
    dict(id="m08_chunk_pos", prop="C08", file="ak/color.py", suite_catches=True,
         old="            if position < len(chunk.text):\n                return chunk_id, position\n",
         new="            if position <= len(chunk.text):\n                return chunk_id, position\n",
         note="off by one at a chunk boundary"),
    dict(id="m08_neg_start_no_clamp", prop="C08", suite_catches=True, file="ak/color.py",
         old="            start_pos = max(0, self.scrlen + start_pos)\n",
         new="            start_pos = self.scrlen + start_pos\n",
         note="negative start beyond the beginning is not clamped"),
    dict(id="m08_neg_stop_no_clamp", prop="C08", suite_catches=True, file="ak/color.py",
         old="            end_pos = max(0, self.scrlen + end_pos)\n",
         new="            end_pos = abs(self.scrlen + end_pos)\n",
         note="negative stop beyond the beginning"),
    dict(id="m08_scrlen_merge", prop="C08", suite_catches=True, file="ak/color.py",
         old="            self.chunks[-1] = prev_chunk.clone(prev_chunk.text + chunk.text)\n        else:\n            self.chunks.append(chunk)\n        self.scrlen += len(chunk.text)\n",
         new="            self.chunks[-1] = prev_chunk.clone(prev_chunk.text + chunk.text)\n        else:\n            self.chunks.append(chunk)\n            self.scrlen += len(chunk.text)\n",
         note="cached length not updated when the appended chunk is merged into the last one"),
    dict(id="m08_keep_empty", prop="C08", file="ak/color.py",
         old="        if not chunk.text:\n            # It is safe to skip chunks with empty text.\n",
         new="        if not chunk.text and not self.chunks:\n            # It is safe to skip chunks with empty text.\n",
         note="empty chunks kept unless the text is empty: unmerged neighbours, unequal equal texts"),
    dict(id="m08_eq_ignores_colour", prop="C08", suite_catches=True, file="ak/color.py",
         old="            return all(p0 == p1 for p0, p1 in zip(self.chunks, other.chunks))\n",
         new="            return all(p0.text == p1.text for p0, p1 in zip(self.chunks, other.chunks))\n",
         note="equality ignores colours"),
    dict(id="m08_eq_str_colored", prop="C08", suite_catches=True, file="ak/color.py",
         old="            p = self.chunks[0]\n            return p.is_plain() and p.text == other\n",
         new="            p = self.chunks[0]\n            return p.text == other\n",
         note="a coloured text equals the plain string"),
    dict(id="m08_center", prop="C08", file="ak/color.py",
         old="            prefix_width = filler_width // 2\n",
         new="            prefix_width = (filler_width + 1) // 2\n", note="centering with odd padding"),
    dict(id="m08_fixed_len_shares_chunks", prop="C08", suite_catches=True, file="ak/color.py",
         old="        if len_diff < 0:\n            return self[:desired_len]\n        if len_diff > 0:\n            return self + \" \"*len_diff\n",
         new="        if len_diff < 0:\n            return self[:desired_len]\n        if len_diff > 0:\n            self += \" \"*len_diff\n            return type(self)(self)\n",
         note="fixed_len pads the receiver in place"),
    dict(id="m08_getitem_first_chunk_alias", prop="C08", file="ak/color.py",
         old="        remain_len = end_pos - start_pos\n        if remain_len <= 0:\n            return type(self)()\n",
         new="        remain_len = end_pos - start_pos\n        if remain_len <= 0:\n            return type(self)()\n        if start_pos == 0 and remain_len >= self.scrlen:\n            return self\n",
         note="full-range slice returns the receiver itself"),
    # ------------------------------------------------------------------ C10
    dict(id="m10_enum_cache_by_value", prop="C10", file="ak/ppobj.py",
         edits=[("        # the value are parts of the key)\n        key = (type(value), value, str(value))\n",
                 "        # the value are parts of the key)\n        key = value\n"),
                ("        # ('by_fmt_cache' is part of self._cache)\n        key = (type(value), value, str(value))\n", "        # ('by_fmt_cache' is part of self._cache)\n        key = value\n")],
         note="the original defect (fixed in /repo): cell texts cached by the value alone - 2 and 2.0 share an entry"),
    dict(id="m10_enum_cache_without_text", prop="C10", file="ak/ppobj.py",
         edits=[("        # the value are parts of the key)\n        key = (type(value), value, str(value))\n",
                 "        # the value are parts of the key)\n        key = (type(value), value)\n"),
                ("        # ('by_fmt_cache' is part of self._cache)\n        key = (type(value), value, str(value))\n", "        # ('by_fmt_cache' is part of self._cache)\n        key = (type(value), value)\n")],
         note="the original defect (fixed in /repo): 0.0 and -0.0 share one entry of the enum cell caches"),
    dict(id="m10_enum_id_cache", prop="C10", file="ak/ppobj.py",
         edits=[("        self._cache = weakref.WeakKeyDictionary()\n", "        self._cache = {}\n"),
                ("        cache_key = field_palette  # need to maintain separate caches\n",
                 "        cache_key = id(field_palette)  # need to maintain separate caches\n")],
         note="the original defect (fixed in /repo): cell cache keyed by id() of a palette"),
    dict(id="m10_result_fixed_len_memo", prop="C10", file="ak/color.py",
         old="        return type(self)(self)  # the result must not share state with self\n",
         new="        return self\n",
         note="same mutation as m08_fixed_len_self seen through lazy results: result.fixed_len(len(result)) hands out the memoised text"),
    dict(id="m10_table_lines_are_lists", prop="C10", file="ak/ppobj.py",
         old="        line.append(sep)\n        return CHText(line)\n",
         new="        line.append(sep)\n        return line\n",
         note="the original defect (fixed in /repo): title and record lines of a table are bare lists of chunks"),
    dict(id="m10_synced_palette_stale", prop="C10", file="ak/color.py",
         old="""        self.register_in_colors_conf(colors_conf)
        for accessor_name, synt_id in self._LOCAL_SYNTAX.items():
            color_fmt = colors_conf.get_color(synt_id)
""",
         new="""        if colors_conf.color_conf_component_is_registered(type(self)):
            return
        self.register_in_colors_conf(colors_conf)
        for accessor_name, synt_id in self._LOCAL_SYNTAX.items():
            color_fmt = colors_conf.get_color(synt_id)
""", note="same mutation as m14_sync_skips_accessors seen through renderings with a synced palette object"),
    dict(id="m10_nocolor_returns_cached_colored", prop="C10", suite_catches=True, file="ak/color.py",
         old="            return cls._PALETTE_NO_COLOR\n",
         new="            return cls._PALETTE_NO_COLOR or colors_conf.get_cached_obj(cls)\n",
         note="no_color request served from the coloured palette cache when one exists"),
    dict(id="m10_shared_sub_palettes", prop="C10", suite_catches=True, file="ak/color.py",
         old="        self._sub_palettes = {}\n",
         new="        self._sub_palettes = CompoundPalette.get_sub_palette.__dict__.setdefault('shared', {})\n",
         note="sub-palettes cached across configurations and across colour / no_color palettes"),
    dict(id="m10_warn_constant", prop="C10", file="ak/ppobj.py",
         old="        result.append(cp.warn('.'*dots_len))\n",
         new="        result.append(CHText.Chunk('\\033[31m', '.'*dots_len, '\\033[0m'))\n",
         note="truncation dots coloured by a constant: escape in no_color output, ignores configuration"),
    dict(id="m10_result_memo_on_object", prop="C10", suite_catches=True, file="ak/ppobj.py",
         old="    def __str__(self):\n        if self._ch_text is None:\n            self._ch_text = self.ppobj.make_ch_text(self.cp)\n        return self._ch_text.__str__()\n",
         new="    def __str__(self):\n        if self._ch_text is None:\n            memo = self.ppobj.__dict__ if hasattr(self.ppobj, '__dict__') else {}\n            if '_memo_text' not in memo:\n                memo['_memo_text'] = self.ppobj.make_ch_text(self.cp)\n            self._ch_text = memo['_memo_text']\n        return self._ch_text.__str__()\n",
         note="whole text memoised on the printable object instead of the result: later renderings under another palette reuse it"),
    dict(id="m10_no_cache_reset_on_pending", prop="C10", suite_catches=True, file="ak/color.py",
         old="        if any(synt_id not in self.syntax_map for synt_id in new_items):\n            self._cache = {}\n",
         new="        if any(synt_id not in self.syntax_map for synt_id in new_items) and not any(\n                sc.color_fmt is None for sc in self.syntax_map.values()):\n            self._cache = {}\n",
         note="palette cache not reset while something is pending: a registered parent does not reach cached palettes"),
    dict(id="m10_lines_whole_differ", prop="C10", file="ak/ppobj.py",
         old="        # 7. summary line\n        if self.footer:\n",
         new="        # 7. summary line\n        if self.footer and table_lines:\n",
         note="(layout change, same for all paths: must NOT be reported by C10 - control)", expect_miss=True),
    # ------------------------------------------------------------------ C13
    dict(id="m13_paren_suffix", prop="C13", file="ak/ppobj.py",
         old="            if width_fmt.endswith(')') and '(' in width_fmt:\n",
         new="            if False and width_fmt.endswith(')') and '(' in width_fmt:\n",
         note="the original defect (fixed in /repo): 'a:3-10(7)' rejected"),
    dict(id="m13_stale_widths", prop="C13", file="ak/ppobj.py",
         edits=[("        new_fmt_obj = self._ppt_fmt.clone()\n        new_fmt_obj.remove_columns(columns_names)\n        self._ppt_fmt = new_fmt_obj\n",
                 "        self._ppt_fmt.remove_columns(columns_names)\n"),
                ("            c.clone() for c in self.columns\n            if c.name not in columns_names\n",
                 "            c for c in self.columns\n            if c.name not in columns_names\n")],
         note="the original defect (fixed in /repo by da010bb + 77f949d; either repair alone makes PPTable.remove_columns "
              "re-detect the widths, so the first edit alone is an equivalent mutant since 77f949d): stale widths after remove_columns"),
    dict(id="m13_stale_widths_fmtobj", prop="C13", file="ak/ppobj.py",
         old="            c.clone() for c in self.columns\n            if c.name not in columns_names\n",
         new="            c for c in self.columns\n            if c.name not in columns_names\n",
         note="the original defect through table.fmt.remove_columns (fixed in /repo)"),
    dict(id="m13_inflight", prop="C13", file="ak/ppobj.py",
         old="                    repr_structure.make_record_ch_chunks_all(tl, cp),\n",
         new="                    self._ppt_fmt.repr_structure.make_record_ch_chunks_all(tl, cp),\n",
         note="the original defect (fixed in /repo): in-flight rendering reads the current format object"),
    dict(id="m13_breakby_with_modifier", prop="C13", file="ak/ppobj.py",
         old="        if self.break_by:\n            fmt_str += \"!\"\n",
         new="        if self.break_by and self.fmt_modifier is None:\n            fmt_str += \"!\"\n",
         note="serialiser drops ! when the column has a format modifier"),
    dict(id="m13_limits_dropped_when_skipped", prop="C13", suite_catches=True, file="ak/ppobj.py",
         old="        if self.any_lines_skipped is None or self.any_lines_skipped is True:\n",
         new="        if self.any_lines_skipped is None:\n",
         note="limits left out of the reported string exactly when they matter"),
    dict(id="m13_set_fmt_no_clone", prop="C13", file="ak/ppobj.py",
         old="        new_fmt_obj = self._ppt_fmt.clone()\n        parsed_fmt = PPTableFormat._parse_fmt(fmt)\n",
         new="        new_fmt_obj = self._ppt_fmt\n        parsed_fmt = PPTableFormat._parse_fmt(fmt)\n",
         note="set_fmt mutates the live format object: a rendering in flight is disturbed by fmt = ''"),
    dict(id="m13_clone_forgets_breakby", prop="C13", file="ak/ppobj.py",
         old="            self.fmt_modifier,\n            self.break_by,\n            self.min_width,\n",
         new="            self.fmt_modifier,\n            False,\n            self.min_width,\n",
         note="ReprColumn.clone() forgets break_by: fmt = '' removes break lines"),
    dict(id="m13_clone_forgets_limits", prop="C13", file="ak/ppobj.py",
         old="            self.repr_structure.clone(), self.limit_flines, self.limit_llines)\n",
         new="            self.repr_structure.clone())\n",
         note="PPTableFormat.clone() forgets limits (they are copied back only by set_fmt): fmt_obj= constructor differs"),
    dict(id="m13_zero_width", prop="C13", file="ak/ppobj.py",
         old="        if self.min_width == self.max_width:\n            fmt_str += f\":{self.min_width}\"\n",
         new="        if self.min_width == self.max_width:\n            fmt_str += f\":{self.min_width}\" if self.min_width else \"\"\n",
         note="a zero-width column is reported without its width"),
]
