"""Sensitivity catalogue: small source mutations that break one property while
the repository still imports and (verified by `vcheck selftest-sensitivity
--with-tests`) still passes its own test-suite.  Each is applied to a scratch
copy under $TMPDIR, never to /repo."""

CATALOGUE = [
    # ------------------------------------------------------------------ C16
    dict(id="m16_nolock", prop="C16", file="ak/conn_http.py",
         old="""        with self._reqid_generator_guard:
            next_req_id = self._cur_req_id
            self._cur_req_id += 1
""",
         new="""        next_req_id = self._cur_req_id
        self._cur_req_id += 1
""", note="lock removed: lost update needs a pre-emption between read and write"),
    dict(id="m16_split", prop="C16", file="ak/conn_http.py",
         old="""            next_req_id = self._cur_req_id
            self._cur_req_id += 1
""",
         new="""            next_req_id = self._cur_req_id
        self._cur_req_id = next_req_id + 1
""", note="read under the lock, increment outside it"),
    dict(id="m16_fresh_lock", prop="C16", file="ak/conn_http.py",
         old="        with self._reqid_generator_guard:\n",
         new="        with threading.Lock():\n", note="a new lock per call excludes nobody"),
    dict(id="m16_id_before_test", prop="C16", file="ak/conn_http.py",
         old="""            if 'X-Request-ID' not in headers:
                headers['X-Request-ID'] = self._generate_request_id()
""",
         new="""            new_req_id = self._generate_request_id()
            if 'X-Request-ID' not in headers:
                headers['X-Request-ID'] = new_req_id
""", note="a caller-supplied id consumes a number"),
    dict(id="m16_check_then_act", prop="C16", file="ak/conn_http.py",
         old="""        with self._reqid_generator_guard:
            next_req_id = self._cur_req_id
            self._cur_req_id += 1
""",
         new="""        next_req_id = self._cur_req_id
        with self._reqid_generator_guard:
            self._cur_req_id = next_req_id + 1
""", note="read outside, write inside the lock"),
    # ------------------------------------------------------------------ C17
    dict(id="m17_clone_list", prop="C17", file="ak/mcaller_http.py",
         old="        elif not isinstance(http_conn_adapters, (list, tuple)):\n",
         new="        elif isinstance(http_conn_adapters, (list, tuple)):\n",
         note="the original defect (fixed in 0a3a5fa)"),
    dict(id="m17_headers_nocopy", prop="C17", file="ak/conn_http.py",
         old="        self.headers = headers.copy() if headers else {}\n",
         new="        self.headers = headers if headers else {}\n",
         note="caller's header dict receives Authorization / X-Request-ID / Content-Type"),
    dict(id="m17_caller_list_grows", prop="C17", file="ak/conn_http.py",
         old="        self.adapters = self.own_adapters + self.parent_conn.adapters\n",
         new="        self.adapters = self.own_adapters\n        self.adapters += self.parent_conn.adapters\n",
         note="the caller's adapter list is extended in place; add_adapter then leaks into it too"),
    dict(id="m17_parent_list_shared", prop="C17", file="ak/conn_http.py",
         old="        self.adapters = self.own_adapters + self.parent_conn.adapters\n",
         new="        self.adapters = self.parent_conn.adapters\n        self.adapters[0:0] = self.own_adapters\n",
         note="child and parent share one list: deriving alters requests through the original"),
    dict(id="m17_resp_order", prop="C17", file="ak/conn_http.py",
         old="        for adapter in adapters[::-1]:\n",
         new="        for adapter in adapters:\n", note="response processors not reversed"),
    dict(id="m17_shared_prefix_cache", prop="C17", file="ak/mcaller_http.py",
         old="            conns_by_prefix = self._mc_conns_by_prefix\n",
         new="            conns_by_prefix = MCallerHttp.get_conn.__dict__.setdefault('cache', {})\n",
         note="per-caller cache of prefixed connections shared by all callers: clones reuse the original's connection"),
    dict(id="m17_prefix_double_slash", prop="C17", file="ak/conn_http.py",
         old="            suffix_path = suffix_path[1:]\n",
         new="            suffix_path = suffix_path[0:]\n", note="prefix ending with / + path starting with /"),
    dict(id="m17_content_type", prop="C17", file="ak/conn_http.py",
         old="                if 'Content-Type' not in headers:\n                    headers['Content-Type'] = 'application/json'\n",
         new="                headers['Content-Type'] = 'application/json'\n",
         note="preset Content-Type overridden for structured bodies"),
    dict(id="m17_add_adapter_leaks_up", prop="C17", file="ak/conn_http.py",
         old="        self.adapters.append(adapter)\n",
         new="        self.adapters.append(adapter)\n        self.parent_conn.adapters.append(adapter)\n",
         note="add_adapter on a derived connection changes the original"),
    dict(id="m17_query_unescaped", prop="C17", file="ak/conn_http.py",
         old="            path += \"?\" + urlencode(params)\n",
         new="            path += \"?\" + \"&\".join(f\"{k}={v}\" for k, v in dict(params).items())\n",
         note="params not url-encoded"),
    dict(id="m17_str_body_latin1", prop="C17", file="ak/conn_http.py",
         old="            req_data = str_data.encode(encoding='utf-8')\n",
         new="            req_data = str_data.encode(encoding='latin-1', errors='replace')\n",
         note="body encoding"),
    dict(id="m17_auth_twice_cached", prop="C17", file="ak/conn_http.py",
         old="        self.auth_type = next(\n",
         new="        self.own_adapters = list(self.own_adapters) * (2 if len(self.adapters) > 3 else 1)\n        self.adapters = self.own_adapters + self.parent_conn.adapters\n        self.auth_type = next(\n",
         note="own adapters applied twice, but only on chains longer than 3"),
    dict(id="m17_empty_json", prop="C17", file="ak/conn_http.py",
         old="            if ret_val:\n                ret_val = json.loads(ret_val)\n",
         new="            if ret_val and ret_val != 'null':\n                ret_val = json.loads(ret_val)\n",
         note="a JSON null body returned as the string 'null'"),
]
