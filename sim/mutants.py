"""Sensitivity catalogue: small source mutations that break one property while
the repository still imports and (verified by `vcheck selftest-sensitivity
--with-tests`) still passes its own test-suite.  Each is applied to a scratch
copy under $TMPDIR, never to /repo."""

CATALOGUE = [
    # ------------------------------------------------------------------ C16
    dict(id="m16_nolock", prop="C16", file="ak/conn_http.py",
         old="""        with self._reqid_generator_guard:
            next_req_id = self._cur_req_id
            self._cur_req_id += 1
""",
         new="""        next_req_id = self._cur_req_id
        self._cur_req_id += 1
""", note="lock removed: lost update needs a pre-emption between read and write"),
    dict(id="m16_split", prop="C16", file="ak/conn_http.py",
         old="""            next_req_id = self._cur_req_id
            self._cur_req_id += 1
""",
         new="""            next_req_id = self._cur_req_id
        self._cur_req_id = next_req_id + 1
""", note="read under the lock, increment outside it"),
    dict(id="m16_fresh_lock", prop="C16", file="ak/conn_http.py",
         old="        with self._reqid_generator_guard:\n",
         new="        with threading.Lock():\n", note="a new lock per call excludes nobody"),
    dict(id="m16_id_before_test", prop="C16", file="ak/conn_http.py",
         old="""            if 'X-Request-ID' not in headers:
                headers['X-Request-ID'] = self._generate_request_id()
""",
         new="""            new_req_id = self._generate_request_id()
            if 'X-Request-ID' not in headers:
                headers['X-Request-ID'] = new_req_id
""", note="a caller-supplied id consumes a number"),
    dict(id="m16_check_then_act", prop="C16", file="ak/conn_http.py",
         old="""        with self._reqid_generator_guard:
            next_req_id = self._cur_req_id
            self._cur_req_id += 1
""",
         new="""        next_req_id = self._cur_req_id
        with self._reqid_generator_guard:
            self._cur_req_id = next_req_id + 1
""", note="read outside, write inside the lock"),
    # ------------------------------------------------------------------ C17
    dict(id="m17_clone_list", prop="C17", file="ak/mcaller_http.py",
         old="        elif not isinstance(http_conn_adapters, (list, tuple)):\n",
         new="        elif isinstance(http_conn_adapters, (list, tuple)):\n",
         note="the original defect (fixed in 0a3a5fa)"),
    dict(id="m17_headers_nocopy", prop="C17", file="ak/conn_http.py",
         old="        self.headers = headers.copy() if headers else {}\n",
         new="        self.headers = headers if headers else {}\n",
         note="caller's header dict receives Authorization / X-Request-ID / Content-Type"),
    dict(id="m17_caller_list_grows", prop="C17", file="ak/conn_http.py",
         old="        self.adapters = self.own_adapters + self.parent_conn.adapters\n",
         new="        self.adapters = self.own_adapters\n        self.adapters += self.parent_conn.adapters\n",
         note="the caller's adapter list is extended in place; add_adapter then leaks into it too"),
    dict(id="m17_parent_list_shared", prop="C17", file="ak/conn_http.py",
         old="        self.adapters = self.own_adapters + self.parent_conn.adapters\n",
         new="        self.adapters = self.parent_conn.adapters\n        self.adapters[0:0] = self.own_adapters\n",
         note="child and parent share one list: deriving alters requests through the original"),
    dict(id="m17_resp_order", prop="C17", file="ak/conn_http.py",
         old="        for adapter in adapters[::-1]:\n",
         new="        for adapter in adapters:\n", note="response processors not reversed"),
    dict(id="m17_shared_prefix_cache", prop="C17", file="ak/mcaller_http.py",
         old="            conns_by_prefix = self._mc_conns_by_prefix\n",
         new="            conns_by_prefix = MCallerHttp.get_conn.__dict__.setdefault('cache', {})\n",
         note="per-caller cache of prefixed connections shared by all callers: clones reuse the original's connection"),
    dict(id="m17_prefix_double_slash", prop="C17", file="ak/conn_http.py",
         old="            suffix_path = suffix_path[1:]\n",
         new="            suffix_path = suffix_path[0:]\n", note="prefix ending with / + path starting with /"),
    dict(id="m17_content_type", prop="C17", file="ak/conn_http.py",
         old="                if 'Content-Type' not in headers:\n                    headers['Content-Type'] = 'application/json'\n",
         new="                headers['Content-Type'] = 'application/json'\n",
         note="preset Content-Type overridden for structured bodies"),
    dict(id="m17_add_adapter_leaks_up", prop="C17", file="ak/conn_http.py",
         old="        self.adapters.append(adapter)\n",
         new="        self.adapters.append(adapter)\n        self.parent_conn.adapters.append(adapter)\n",
         note="add_adapter on a derived connection changes the original"),
    dict(id="m17_query_unescaped", prop="C17", file="ak/conn_http.py",
         old="            path += \"?\" + urlencode(params)\n",
         new="            path += \"?\" + \"&\".join(f\"{k}={v}\" for k, v in dict(params).items())\n",
         note="params not url-encoded"),
    dict(id="m17_str_body_latin1", prop="C17", file="ak/conn_http.py",
         old="            req_data = str_data.encode(encoding='utf-8')\n",
         new="            req_data = str_data.encode(encoding='latin-1', errors='replace')\n",
         note="body encoding"),
    dict(id="m17_auth_twice_cached", prop="C17", file="ak/conn_http.py",
         old="        self.auth_type = next(\n",
         new="        self.own_adapters = list(self.own_adapters) * (2 if len(self.adapters) > 3 else 1)\n        self.adapters = self.own_adapters + self.parent_conn.adapters\n        self.auth_type = next(\n",
         note="own adapters applied twice, but only on chains longer than 3"),
    dict(id="m17_empty_json", prop="C17", file="ak/conn_http.py",
         old="            if ret_val:\n                ret_val = json.loads(ret_val)\n",
         new="            if ret_val and ret_val != 'null':\n                ret_val = json.loads(ret_val)\n",
         note="a JSON null body returned as the string 'null'"),
    # ------------------------------------------------------------------ C14
    dict(id="m14_dash_with_parent", prop="C14", file="ak/color.py",
         old="""            assert parent is None

        # "-" - the system color is requested explicitely (even if the parent
        # has some other color); "" - there is nothing to inherit the color from
        if self.fg_color in ["-", ""]:
            self.fg_color = None
        if self.bg_color in ["-", ""]:
            self.bg_color = None
""",
         new="""            assert parent is None
            if self.fg_color in ["-", ""]:
                self.fg_color = None
            if self.bg_color in ["-", ""]:
                self.bg_color = None
""", note="the original defect (fixed in 549c950)"),
    dict(id="m14_reentrant_sync", prop="C14", file="ak/color.py",
         old="""            if colors_conf.color_conf_component_is_registered(cls):
                # registration of a parent palette in the global config
                # updates all the synced palettes. The synced palette of this
                # class could have been among them - cls is registered already.
                return
""", new="", note="the original defect (fixed in c027611)"),
    dict(id="m14_mods_parent_wins", prop="C14", suite_catches=True, file="ak/color.py",
         old="            self.modifiers = {**parent.modifiers, **self.modifiers}\n",
         new="            self.modifiers = {**self.modifiers, **parent.modifiers}\n",
         note="modifiers merged parent over child"),
    dict(id="m14_dash_inherits", prop="C14", file="ak/color.py",
         old="""            if self.fg_color == "":
                self.fg_color = parent.fg_color
""",
         new="""            if self.fg_color in ("", "-"):
                self.fg_color = parent.fg_color
""", note="'-' inherits the parent's colour instead of selecting the terminal default"),
    dict(id="m14_poison_cant_resolve", prop="C14", file="ak/color.py",
         old="                        cant_resolve.update(path)\n",
         new="                        cant_resolve.update(self.syntax_map)\n",
         note="one unresolvable chain poisons every other pending chain of this pass"),
    dict(id="m14_user_overrides", prop="C14", file="ak/color.py",
         old="""            if synt_id in self.syntax_map:
                # properties of this syntax are defined already. Probably in
                # config file.
                continue
""",
         new="""            if synt_id in self.syntax_map and src_obj_descr != "user":
                # properties of this syntax are defined already. Probably in
                # config file.
                continue
""", note="a later user registration overrides the explicit configuration"),
    dict(id="m14_cache_reset_user_only", prop="C14", suite_catches=True, file="ak/color.py",
         old="        if any(synt_id not in self.syntax_map for synt_id in new_items):\n            self._cache = {}\n",
         new="        if src_obj_descr == \"user\" and any(synt_id not in self.syntax_map for synt_id in new_items):\n            self._cache = {}\n",
         note="component registrations no longer reset the palette cache: cached palettes go stale"),
    dict(id="m14_no_resync", prop="C14", suite_catches=True, file="ak/color.py",
         old="        if any_modifications and self is _GLOBAL_COLORS_CONF:\n",
         new="        if any_modifications and to_resolve and self is _GLOBAL_COLORS_CONF:\n",
         note="global palettes re-synced only when something was pending"),
    dict(id="m14_nocolor_late", prop="C14", suite_catches=True, file="ak/color.py",
         old="""                            syntax_color.resolve(
                                parent_syntax_color, self.no_color)
""",
         new="""                            syntax_color.resolve(
                                parent_syntax_color, False)
""", note="items resolved through a parent are coloured in a no_color configuration"),
    dict(id="m14_unknown_noeffects", prop="C14", suite_catches=True, file="ak/color.py",
         old="""        if syntax_color is None:
            syntax_color = self.syntax_map.get(self.DFLT_SYNTAX_ID)
        if syntax_color is None or syntax_color.color_fmt is None:
""",
         new="""        if syntax_color is None or syntax_color.color_fmt is None:
""", note="unknown ids get no-effects instead of the TEXT formatter"),
    dict(id="m14_sync_skips_accessors", prop="C14", file="ak/color.py",
         old="""        self.register_in_colors_conf(colors_conf)
        for accessor_name, synt_id in self._LOCAL_SYNTAX.items():
            setattr(self, accessor_name, colors_conf.get_color(synt_id))
""",
         new="""        if not colors_conf.color_conf_component_is_registered(type(self)):
            self.register_in_colors_conf(colors_conf)
            for accessor_name, synt_id in self._LOCAL_SYNTAX.items():
                setattr(self, accessor_name, colors_conf.get_color(synt_id))
""", note="a synced palette is refreshed only the first time it meets a configuration"),
]
