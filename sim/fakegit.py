"""Deterministic in-memory git repository for the history-report object.

Same description language as the repository's tests/mock_git.py, but nothing
is drawn from the global `random`: dates and authors are functions of the
commit id, so equal specs build equal repositories in every process."""

import io
import json
from hashlib import sha1

AUTHORS = ["V. Arnold", "Arnold Sh.", "Richard Feynman", "J. Morrison", "Norris, Chuck",
           "Elieser Yudkowsky", "Stanislav Lem", "Viktor Tsoy", "Linus B. Torvalds", "Euler",
           # names that fill or overflow the fixed 18-character column of the report, non-ASCII, empty
           "Wolfgang A. Mozart", "Bartholomew Fitzgerald-Smythe", "Jos\u00e9 \u00c1ngel Guti\u00e9rrez", ""]
BASE_TIME = 15000 * 86400


class _Author:
    __slots__ = ("name",)

    def __init__(self, name):
        self.name = name


class _Blob:
    def __init__(self, contents):
        self.hexsha = sha1(contents.encode()).hexdigest()
        self.data = contents.encode()

    @property
    def data_stream(self):
        return io.BytesIO(self.data)


class _Tree:
    def __init__(self, files, descr):
        self._descr = descr
        self.files = {p: _Blob(c) for p, c in files.items()}

    def __truediv__(self, path):
        try:
            return self.files[path]
        except KeyError as err:
            raise KeyError(f"file '{path}' not exists in commit: {self._descr}") from err


class _Commit:
    def __init__(self, intid, parents, message, tags, tree, repo_name):
        self.intid = intid
        s = f"{intid:05}"
        hs = sha1((repo_name + s).encode()).hexdigest()
        self.hexsha = hs[:1] + s[-5:] + hs[6:]
        self.parents = parents
        self.message = message
        self.tree = _Tree(tree, f"FakeCommit({intid})")
        self.tags = tags
        self.committed_date = BASE_TIME + intid * 47 % 80000 + (intid * 7919) % 91
        self.author = _Author(AUTHORS[int(hs[8:12], 16) % len(AUTHORS)])

    def __repr__(self):
        return f"FakeCommit({self.intid} {self.hexsha[:11]} {self.message})"


class _Ref:
    __slots__ = ("name", "head_commit", "hexsha")

    def __init__(self, name, head_commit):
        self.name = name
        self.head_commit = head_commit
        self.hexsha = head_commit.hexsha


class _Remote:
    __slots__ = ("refs",)

    def __init__(self, repo, name):
        prefix = f"refs/remotes/{name}/"
        chop = len("refs/remotes/")
        by_name = {}
        for ref_name, ref in repo.refs.items():
            if ref_name.startswith(prefix):
                rn = ref_name[chop:]
                by_name[rn] = _Ref(rn, ref.head_commit)
        self.refs = [by_name[n] for n in sorted(by_name)]


class FakeGitRepo:
    def __init__(self, *commits_descr, name):
        self.name = name
        self.git_dir = f"/home/user/gits/{name}"
        self.all_commits = {}
        self.refs = {}
        prev = None
        extra = []
        for line in reversed(commits_descr):
            line = line.strip()
            if not line:
                continue
            if line.startswith("branch:"):
                bn = line[7:].strip()
                ref_name = "refs/remotes/" + bn
                self.refs[ref_name] = _Ref(ref_name, prev)
                continue
            if line.startswith("-->"):
                extra.append(line[3:])
                continue
            full = line + "".join(reversed(extra))
            extra = []
            commit = self._mk_commit(full, prev)
            self.all_commits[commit.intid] = commit
            for tag in commit.tags or ():
                self.refs["refs/tags/" + tag] = _Ref(tag, commit)
            prev = commit
        for c in self.all_commits.values():
            c.parents = [self.all_commits[i] for i in c.parents]
        self.remotes = {"origin": _Remote(self, "origin")}
        self.commits_by_hexsha = {c.hexsha: c for c in self.all_commits.values()}

    def commit(self, hexsha):
        return self.commits_by_hexsha[hexsha]

    def iter_refs(self, *prefixes):
        for ref_name, ref in self.refs.items():
            if any(ref_name.startswith(p) for p in prefixes):
                yield ref_name, ref.hexsha

    def _mk_commit(self, descr, prev):
        chunks = [c.strip() for c in descr.split("|")]
        idc = chunks[0].split("<-", 1)
        intid = int(idc[0])
        if len(idc) == 2:
            parents = [int(x) for x in idc[1].split(",")]
        else:
            parents = [prev.intid] if prev is not None else []
        message = None
        tags = None
        tree = {}
        for chunk in chunks[1:]:
            if not chunk:
                continue
            if chunk.startswith("tags:"):
                tags = [t.strip() for t in chunk[5:].split(",")]
                continue
            if chunk.startswith("file:"):
                _, path, contents = chunk.split(":", 2)
                tree[path.strip()] = contents
                continue
            message = chunk
        return _Commit(intid, parents, message, tags, tree, self.name)


REPO_SPECS = {
    "linear": dict(name="component_1", lines=[
        "branch: origin/master",
        "50 | BUG-555",
        "40 | BUG-444",
        "30 | BUG-333|tags: build_4304_release_10_250_success ",
        "20 | BUG-222|tags: build_4303_release_10_250_success",
        "10 | BUG-111",
        "5  | Initial Commit",
    ]),
    "branches": dict(name="component_1", lines=[
        "branch: origin/master",
        "340 | BUG-177",
        "330<-230, 320| merge",
        "320<-220| branch out |tags: build_4500_master_success",
        "--> |file:VERSION:10.270|",
        "branch: origin/release/10.260",
        "240<-230, 140| merge|tags: build_4445_release_10_260_success",
        "230 | BUG-133|tags: build_4444_release_10_260_success",
        "225 | BUG-166",
        "220<-120 | first commit after branch",
        "branch: origin/release/10.250",
        "150 | BUG-155",
        "140 | BUG-144",
        "130 | BUG-133|tags: build_4304_release_10_250_success ",
        "120 | BUG-122|tags: build_4303_release_10_250_success",
        "110 | BUG-111",
        "15  | Initial Commit",
    ]),
}


MULTI_SPECS = {
    # a parent repository that records the component's version in a DEPENDS file:
    # builds of the component are reported with "included at" notes and the parent shows bumps
    "parent+lib": {
        "c_master": dict(name="c_master", components={"proj_lib": "DEPENDS"}, lines=[
            'branch: origin/master',
            '990<-10|branch master head',
            '--> |file:DEPENDS:{"proj_lib": "10.120.2019"}',
            'branch: origin/release/5.7',
            '490|branch 5.7 head - not a build',
            '--> |file:DEPENDS:{"proj_lib": "10.120.2019"}',
            '480<-10|build 5.7.77',
            '--> |tags:build_77_release_5_7_success',
            '--> |file:DEPENDS:{"proj_lib": "10.120.2019"}',
            'branch: origin/release/5.5',
            '290<-10|branch 5.5 head',
            '--> |file:DEPENDS:{"proj_lib": "10.120.2010"}',
            'branch: origin/release/5.4',
            '128|head of branch',
            '--> |file:DEPENDS:{"proj_lib": "10.120.2018"}',
            '127|build 17|tags: build_17_release_5_4_success',
            '--> |file:DEPENDS:{"proj_lib": "10.120.2017"}',
            '124|build 14|tags: build_14_release_5_4_success',
            '--> |file:DEPENDS:{"proj_lib": "10.120.2014"}',
            '121|build 11|tags: build_11_release_5_4_success',
            '--> |file:DEPENDS:{"proj_lib": "10.120.2011"}',
            '120|build 10|tags: build_10_release_5_4_success',
            '--> |file:DEPENDS:{"proj_lib": "10.120.2010"}',
            'branch: origin/release/5.3',
            '90|build 5|tags: build_5_release_5_3_success',
            '--> |file:DEPENDS:{"proj_lib": "10.120.2010"}',
            '10|build 3|tags: build_3_release_5_3_success',
            '--> |file:DEPENDS:{"proj_lib": "10.110.2020"}',
        ]),
        "proj_lib": dict(name="proj_lib", components={}, lines=[
            'branch: origin/master',
            '990 | final_build |tags: build_3090_release_10_130_success',
            '--> |file:VERSION:10.130|',
            'branch: origin/release/10.120',
            '190 | BUG-211 g |tags: build_2019_release_10_120_success',
            '180 | BUG-211 f |tags: build_2018_release_10_120_success',
            '160 | BUG-211 e |tags: build_2016_release_10_120_success',
            '150 | BUG-211 d |tags: build_2015_release_10_120_success',
            '140 | no bug    |tags: build_2014_release_10_120_success',
            '130 | BUG-211 c |tags: build_2013_release_10_120_success',
            '120 | BUG-211 b |tags: build_2012_release_10_120_success',
            '110 | BUG-211 a |tags: build_2011_release_10_120_success',
            '100 | some build |tags: build_2010_release_10_120_success',
        ]),
    },
}


def make_collection(which):
    """-> ak.ghist.ReposCollection over a fake repository."""
    from ak.ghist import ProjectRepo, ReposCollection, BuildNumData

    class StdRepo(ProjectRepo):
        _SAVED_BUILD_NUM_SOURCES = ["VERSION"]

        def _read_saved_build_num_from_file(self, blob, path):
            data = blob.data_stream.read().decode().strip()
            nums = [int(c) for c in data.split(".")]
            if len(nums) == 2:
                nums.append(None)
            return BuildNumData(*nums)

        def read_components_from_file(self, v_file_path, blob):
            d = json.load(blob.data_stream)
            return {k: [int(n) for n in v.split(".")] for k, v in d.items()}

    if which in MULTI_SPECS:
        import logging
        types = {}
        repos = {}
        for rid, spec in MULTI_SPECS[which].items():
            cls = type("Repo_" + rid, (StdRepo,), {"_COMPONENTS_VERSIONS_LOCATIONS": dict(spec["components"]),
                                                   "__slots__": ()})
            types[rid] = cls
            repos[rid] = cls(rid, FakeGitRepo(*spec["lines"], name=spec["name"]), "origin")

        class MultiColl(ReposCollection):
            _REPOS_TYPES = types

        return MultiColl(repos)
    spec = REPO_SPECS[which]
    repo = FakeGitRepo(*spec["lines"], name=spec["name"])

    class Coll(ReposCollection):
        _REPOS_TYPES = {"comp_1": StdRepo}

    return Coll({"comp_1": StdRepo("comp_1", repo, "origin")})
