"""Independent SGR (colour escape) scanner and decoder used by the oracles.

Never reuses ak.color: strip() removes every `ESC [ params m` sequence where
params may contain digits, ';' and ':' (the package emits `38:5:n`)."""

import re

SGR_RE = re.compile("\x1b\\[([0-9;:]*)m")
ESC = "\x1b"


def strip(text):
    return SGR_RE.sub("", text)


EMPTY_RUN_RE = re.compile("\x1b\\[[0-9;:]+m\x1b\\[0m")


def drop_empty_runs(text):
    """remove zero-length coloured runs (prefix immediately followed by reset): they show nothing.
    Lines produced one by one may keep them while the joined whole text drops them."""
    return EMPTY_RUN_RE.sub("", text)


def canon(text):
    """canonical form of an escape-decorated text: the visible characters with their styles, runs of
    equal style merged, zero-length runs gone.  Two strings with equal canon() show the same thing."""
    out = []
    cur = None
    for ch, st in parse_cells(text):
        if st != cur:
            out.append(f"\x00{st!r}\x00")
            cur = st
        out.append(ch)
        if ch == "\n":
            cur = None
    return "".join(out)


def has_escape(text):
    return ESC in text


def decode_params(params):
    """'38:5:107;1' -> (fg, bg, frozenset(effects)).

    fg/bg: None, ("c", 0..7) for the named colours 30-37/40-47, ("x", 0..255) for 38:5:n / 48:5:n
    (kept apart: the package promises the escape sequence of the description, not a hue)."""
    fg = None
    bg = None
    eff = set()
    if params == "":
        return ("reset",)
    for part in params.split(";"):
        if part == "0":
            return ("reset",)
        if ":" in part:
            f = part.split(":")
            if len(f) == 3 and f[1] == "5" and f[0] in ("38", "48"):
                if f[0] == "38":
                    fg = ("x", int(f[2]))
                else:
                    bg = ("x", int(f[2]))
                continue
            raise ValueError(f"unknown SGR parameter {part!r}")
        n = int(part)
        if 30 <= n <= 37:
            fg = ("c", n - 30)
        elif 40 <= n <= 47:
            bg = ("c", n - 40)
        elif n == 1:
            eff.add("bold")
        elif n == 2:
            eff.add("faint")
        elif n == 4:
            eff.add("underline")
        elif n == 5:
            eff.add("blink")
        elif n == 9:
            eff.add("crossed")
        else:
            raise ValueError(f"unknown SGR parameter {part!r}")
    return (fg, bg, frozenset(eff))


PLAIN = (None, None, frozenset())


def parse_cells(text):
    """escape-decorated string -> list of (char, style); style = (fg, bg, effects).

    Characters outside any prefix..reset pair have PLAIN style.  The raw
    parameter string is kept instead of the decoded triple when it cannot be
    decoded (so that unequal prefixes still compare unequal)."""
    cells = []
    cur = PLAIN
    pos = 0
    for m in SGR_RE.finditer(text):
        for ch in text[pos:m.start()]:
            cells.append((ch, cur))
        try:
            d = decode_params(m.group(1))
        except ValueError:
            d = ("raw", m.group(1))
        if d == ("reset",):
            cur = PLAIN
        else:
            cur = d
        pos = m.end()
    for ch in text[pos:]:
        cells.append((ch, cur))
    return cells


def decode_fmt_output(s, probe="x"):
    """str(fmt(probe)) -> style triple (PLAIN when no escape)."""
    cells = parse_cells(s)
    if [c for c, _ in cells] != list(probe):
        raise ValueError(f"formatter changed the text: {s!r}")
    styles = {st for _, st in cells}
    if len(styles) != 1:
        raise ValueError(f"formatter produced several styles: {s!r}")
    return styles.pop()
