"""Independent reference model of syntax-colour resolution (C14).

Implements the documented grammar and the inheritance rule of the property
statement; shares no code with ak.color.

  "COLOR/BG_COLOR:modifiers" | "OTHER_SYNTAX:modifiers" | "OTHER_SYNTAX:COLOR/BG_COLOR:modifiers"

colour values in the model: None = not specified (inherit / terminal default),
"-" = terminal default explicitly, ("c", 0..7) named, ("x", 0..255) numbered.
"""

NAMES = {"BLACK": 0, "RED": 1, "GREEN": 2, "YELLOW": 3, "BLUE": 4, "MAGENTA": 5, "CYAN": 6, "WHITE": 7}
MODS = ("bold", "faint", "underline", "blink", "crossed")
PLAIN = (None, None, frozenset())


class Invalid(ValueError):
    pass


def parse_color(tok):
    """-> model colour, or raises KeyError when tok is not a colour token"""
    t = tok.strip()
    if t == "":
        return None
    if t == "-":
        return "-"
    if t in NAMES:
        return ("c", NAMES[t])
    if t.startswith("g") and t[1:].isdigit() and 0 <= int(t[1:]) <= 23 and t == f"g{int(t[1:])}":
        return ("x", 232 + int(t[1:]))
    if t.startswith("("):
        if not t.endswith(")"):
            raise Invalid(tok)
        parts = [p.strip() for p in t[1:-1].split(",")]
        if len(parts) != 3:
            raise Invalid(tok)
        try:
            r, g, b = [int(p) for p in parts]
        except ValueError:
            raise Invalid(tok)
        if any(v < 0 or v > 5 for v in (r, g, b)):
            raise Invalid(tok)
        return ("x", 16 + 36 * r + 6 * g + b)
    try:
        n = int(t)
    except ValueError:
        raise KeyError(tok)
    if n < 0 or n > 255:
        raise Invalid(tok)
    return ("x", n)


def _try_colors(sec):
    """section -> (fg, bg) or None when it is not a colours section"""
    parts = sec.split("/")
    if len(parts) > 2:
        raise Invalid(sec)
    if len(parts) == 2:
        try:
            return parse_color(parts[0]), parse_color(parts[1])
        except KeyError:
            raise Invalid(sec)
    try:
        return parse_color(sec), None
    except KeyError:
        return None


def _parse_mods(sec):
    mods = {}
    for tok in (t.strip() for t in sec.split(",")):
        if not tok:
            continue
        val = True
        name = tok
        if tok.startswith("no_"):
            val = False
            name = tok[3:]
        if name not in MODS:
            raise Invalid(sec)
        mods[name] = val
    return mods


def _looks_like_mods(sec):
    return "," in sec or sec.strip() in MODS or (sec.strip().startswith("no_") and sec.strip()[3:] in MODS)


class Descr:
    __slots__ = ("parent", "fg", "bg", "mods", "text")

    def __init__(self, parent, fg, bg, mods, text):
        self.parent = parent
        self.fg = fg
        self.bg = bg
        self.mods = mods
        self.text = text


def parse_descr(text):
    secs = text.split(":")
    if len(secs) > 3:
        raise Invalid(text)
    parent = None
    fg = bg = None
    cols = _try_colors(secs[0])
    rest = secs[1:]
    if cols is not None:
        fg, bg = cols
        if len(rest) > 1:
            raise Invalid(text)
    else:
        if _looks_like_mods(secs[0]):
            raise Invalid(text)
        parent = secs[0]
        if rest:
            c = _try_colors(rest[0])
            if c is not None:
                fg, bg = c
                rest = rest[1:]
            elif len(rest) > 1:
                raise Invalid(text)
    mods = _parse_mods(rest[0]) if rest else {}
    return Descr(parent, fg, bg, mods, text)


def flatten(d, prefix=""):
    out = {}
    for k, v in d.items():
        if isinstance(v, str):
            out[prefix + k] = v
        elif isinstance(v, dict):
            out.update(flatten(v, prefix + k + "."))
    return out


class Registry:
    """first registration of an id wins"""

    def __init__(self):
        self.items = {}

    def deliver(self, flat):
        for k, v in flat.items():
            if k not in self.items:
                self.items[k] = parse_descr(v)

    def resolve(self, sid, _depth=0):
        """-> (fg, bg, mods dict) with fg/bg in {None, colour}; None when the chain is broken"""
        d = self.items.get(sid)
        if d is None or _depth > 50:
            return None
        if d.parent is None:
            base = (None, None, {})
        else:
            base = self.resolve(d.parent, _depth + 1)
            if base is None:
                return None
        fg = base[0] if d.fg is None else (None if d.fg == "-" else d.fg)
        bg = base[1] if d.bg is None else (None if d.bg == "-" else d.bg)
        mods = dict(base[2])
        mods.update(d.mods)
        return (fg, bg, mods)

    def style(self, sid, no_color=False):
        """what the formatter returned for `sid` must look like (decoded triple)"""
        if no_color:
            return PLAIN
        if sid not in self.items:
            sid = "TEXT"
            if sid not in self.items:
                return PLAIN
        r = self.resolve(sid)
        if r is None:
            return PLAIN
        return (r[0], r[1], frozenset(k for k, v in r[2].items() if v))

    def is_resolved(self, sid):
        return self.resolve(sid) is not None
