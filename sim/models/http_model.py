"""Structural reference model for layered HTTP connections (C17).

Kept by the harness from the construction ops only; never reads conn.adapters.
A chain is a list of adapter descriptions in application order:
  ["prefix", p] | ["hdr", name, value] | ["auth", header_value, kind, cred] | ["wrap", tag]
"""

import base64
import copy
import json
from urllib.parse import urlencode


class ModelNode:
    __slots__ = ("nid", "kind", "impl", "chain", "dependents", "is_mc", "prefix_map",
                 "methods", "mc_cache", "has_auth", "base_chain_ref", "parent")

    def __init__(self, nid, kind, impl, chain, has_auth, parent=None):
        self.nid = nid
        self.kind = kind
        self.impl = impl
        self.chain = chain            # concrete list, snapshot semantics
        self.dependents = 0
        self.is_mc = False
        self.prefix_map = None
        self.methods = None
        self.mc_cache = None
        self.has_auth = has_auth
        self.parent = parent


def auth_entry(kind, spec):
    if kind == "bauth":
        cred = f"{spec['login']}:{spec['password']}"
        return ["auth", "Basic " + base64.b64encode(cred.encode("utf-8")).decode("ascii"), kind, cred]
    if kind == "client":
        cred = f"{spec['client_id']}:{spec['client_secret']}"
        return ["auth", "Basic " + base64.b64encode(cred.encode("utf-8")).decode("ascii"), kind, cred]
    if kind == "token":
        return ["auth", f"Bearer {spec['token']}", kind, spec["token"]]
    raise ValueError(kind)


def adapter_entry(a):
    if a["a"] == "hdr":
        return ["hdr", a["name"], a["value"]]
    if a["a"] == "wrap":
        return ["wrap", a["tag"]]
    if a["a"] == "prefix":
        return ["prefix", a["prefix"]]
    if a["a"] == "drop":
        return ["drop", a["tag"]]
    if a["a"] == "fail":
        return ["fail", a.get("name", "X-Fail-Ad"), a.get("value", "1")]
    if a["a"] == "auth":
        return auth_entry(a["kind"], a)
    raise ValueError(a)


def adapters_entries(spec):
    """adapters argument spec -> list of entries.  spec: None | adapter | {"list":[...]} | {"tuple":[...]}"""
    if spec is None:
        return []
    if "list" in spec:
        return [adapter_entry(a) for a in spec["list"]]
    if "tuple" in spec:
        return [adapter_entry(a) for a in spec["tuple"]]
    return [adapter_entry(spec)]


class HttpModel:
    def __init__(self):
        self.nodes = {}
        self.impls = {}      # impl id -> {"address":..., "ids":bool}

    # ---- construction
    def mk_base(self, nid, impl_id, address, ids):
        addr = address
        self.impls[impl_id] = {"address": addr, "ids": ids}
        self.nodes[nid] = ModelNode(nid, "base", impl_id, [], False)

    def mk_derived(self, nid, kind, parent_id, own_entries):
        p = self.nodes[parent_id]
        pchain = self._conn_chain(p)
        has_auth = p.has_auth or any(e[0] == "auth" for e in own_entries)
        n = ModelNode(nid, kind, p.impl, list(own_entries) + list(pchain), has_auth, parent_id)
        p.dependents += 1
        self.nodes[nid] = n
        return n

    def mk_mcaller(self, nid, parent_id, prefix_map, methods):
        p = self.nodes[parent_id]
        n = ModelNode(nid, "mcaller", p.impl, None, p.has_auth, parent_id)
        n.is_mc = True
        n.prefix_map = dict(prefix_map)
        n.methods = {m["name"]: m for m in methods}
        n.mc_cache = {}
        # the caller's connection: the parent itself, or a plain wrapper of it; same chain,
        # but a *snapshot* only if a wrapper had to be created
        n.base_chain_ref = parent_id
        p.dependents += 1
        self.nodes[nid] = n
        return n

    def mk_clone(self, nid, src_id, own_entries):
        s = self.nodes[src_id]
        base = self._mc_base_chain(s)
        n = ModelNode(nid, "mcaller", s.impl, None, s.has_auth or any(e[0] == "auth" for e in own_entries), src_id)
        n.is_mc = True
        n.prefix_map = dict(s.prefix_map)
        n.methods = dict(s.methods)
        n.mc_cache = {}
        n.base_chain_ref = None
        n.chain = list(own_entries) + list(base)     # chain of the clone's own connection
        s.dependents += 1
        self.nodes[nid] = n
        return n

    def add_adapter(self, nid, entry):
        self.nodes[nid].chain.append(entry)

    def _conn_chain(self, node):
        if node.is_mc:
            raise ValueError("method callers are not connections")
        return node.chain

    def _mc_base_chain(self, mc):
        if mc.base_chain_ref is not None:
            return self.nodes[mc.base_chain_ref].chain
        return mc.chain

    def chain_for_request(self, nid, method_name=None):
        n = self.nodes[nid]
        if not n.is_mc:
            return n.chain
        m = n.methods[method_name]
        comps = m.get("components")
        if comps is None:
            return self._mc_base_chain(n)
        matching = [c for c in comps if c in n.prefix_map]
        assert len(matching) == 1
        prefix = n.prefix_map[matching[0]]
        if prefix not in n.mc_cache:
            if prefix:
                n.mc_cache[prefix] = [["prefix", prefix]] + list(self._mc_base_chain(n))
            else:
                n.mc_cache[prefix] = None     # the base connection itself (live, not a snapshot)
        c = n.mc_cache[prefix]
        return self._mc_base_chain(n) if c is None else c

    # ---- expectation for one request
    def expect(self, nid, req):
        n = self.nodes[nid]
        chain = self.chain_for_request(nid, req.get("method_name"))
        imp = self.impls[n.impl]
        path = req["path"]
        headers = dict(copy.deepcopy(req.get("headers")) or {})
        prefixes = []
        auth = None
        for e in chain:
            if e[0] == "prefix":
                prefixes.append(e[1])
            elif e[0] in ("hdr", "fail"):
                headers[e[1]] = e[2]
            elif e[0] == "auth":
                headers["Authorization"] = e[1]
                auth = e
        # prefixes: applied in chain order, each one in front of what is there already
        for p in prefixes:
            if path.startswith("/") and p.endswith("/"):
                path = p[:-1] + path
            else:
                path = p + path
        params = req.get("params")
        if params:
            path += "?" + urlencode(params)
        address = imp["address"]
        if not address.endswith("/") and not path.startswith("/"):
            path = "/" + path
        url = address + path
        data = req.get("data")
        if data is None:
            body = None
        elif isinstance(data, bytes):
            body = data
        elif isinstance(data, str):
            body = data.encode("utf-8")
        else:
            body = json.dumps(data).encode("utf-8")
            if "Content-Type" not in headers:
                headers["Content-Type"] = "application/json"
        exp_headers = {}
        for k, v in headers.items():
            exp_headers[k.capitalize()] = v
        wraps = [(e[0], e[1]) for e in chain if e[0] in ("wrap", "drop")]
        return {"can_fail": any(e[0] == "fail" for e in chain),
                "url": url, "method": req["verb"].upper(), "body": body, "headers": exp_headers,
                "auth": auth, "wraps": wraps, "ids": imp["ids"],
                "caller_reqid": (req.get("headers") or {}).get("X-Request-ID")}

    @staticmethod
    def expect_result(exp, decoded):
        ret = decoded
        for kind, tag in reversed(exp["wraps"]):
            ret = None if kind == "drop" else {"by": tag, "inner": ret}
        return ret
