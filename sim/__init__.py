"""Deterministic simulation with fault injection for akorshkov/ak_py (see /verif/DESIGN.md)."""
