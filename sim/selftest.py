"""Self tests of the machinery itself: smoke (setup), determinism, sensitivity."""

import importlib
import json
import os
import shutil
import subprocess
import sys
import tempfile
import time

from . import core
from .core import OK, VIOLATION


def _available_props():
    from .cli import PROPS
    out = []
    for pid in PROPS:
        if os.path.exists(os.path.join(core.VERIF_DIR, "sim", "props", f"{pid.lower()}.py")):
            out.append(pid)
    return out


def setup_smoke():
    """MANIFEST.setup_cmd: nothing to build (stdlib only); prove the toolchain works."""
    if sys.version_info < (3, 12) or not hasattr(sys, "monitoring"):
        print("ERROR setup: python >= 3.12 with sys.monitoring required")
        return 2
    core.bootstrap_repo()
    os.makedirs(os.path.join(core.VERIF_DIR, "evidence"), exist_ok=True)
    os.makedirs(os.path.join(core.VERIF_DIR, "replays"), exist_ok=True)
    bad = 0
    for pid in _available_props():
        # each property in its own interpreter: instrumented loading must come first
        cmd = [sys.executable, "-m", "sim.selftest", "_smoke", pid]
        r = subprocess.run(cmd, cwd=core.VERIF_DIR, capture_output=True, text=True, timeout=120)
        print(r.stdout.strip())
        if r.returncode != 0:
            print(r.stderr[-2000:])
            bad += 1
    print("setup: ok" if not bad else f"ERROR setup: {bad} smoke failures")
    return 0 if not bad else 2


def _smoke(pid):
    prop = importlib.import_module(f"sim.props.{pid.lower()}")
    prop.init_zygote()
    n_ok = 0
    for i in range(5):
        seed = core.derive_seed(1, pid, i)
        r = core.run_in_child(lambda s: core.run_seed(prop, s, "quick", False), seed)
        if r.get("status") == OK:
            n_ok += 1
        else:
            print(f"smoke {pid} seed index {i}: {r.get('status')} {r.get('oracle')} {r.get('klass')} {str(r.get('detail'))[:500]}")
    print(f"smoke {pid}: {n_ok}/5 ok")
    return 0 if n_ok == 5 else 1


def determinism(argv):
    """For each property: N seeds, run at worker counts 1, 4, 16 under different hash
    seeds, each compared pairwise by event-log digest."""
    from . import cli
    props = [a.upper() for a in argv if not a.startswith("-")] or _available_props()
    n = 2000
    for a in argv:
        if a.startswith("--n="):
            n = int(a[4:])
    base = core.base_seed()
    rc = 0
    for pid in props:
        results = []
        for workers, hs in ((1, ("3",)), (4, ("0", "11")), (16, cli.HASHSEEDS)):
            got = {}

            def on_rec(rec, got=got):
                got[rec["i"]] = (rec["s"], rec.get("d"))
            cnt = n if workers > 1 else max(50, n // 10)
            agg = cli.run_batch(pid, base, "quick", 0, cnt, time.time() + 1200, workers, hs, on_rec=on_rec,
                                stop_after_violations=10 ** 9)
            if agg["harness"]:
                print(f"ERROR determinism {pid}: harness errors {agg['harness'][:2]}")
                rc = 2
            results.append((workers, got))
        ref = results[-1][1]
        mism = 0
        compared = 0
        for workers, got in results[:-1]:
            for i, v in got.items():
                if i in ref:
                    compared += 1
                    if ref[i] != v:
                        mism += 1
                        if mism <= 5:
                            print(f"MISMATCH {pid} index {i}: {v} (workers={workers}) vs {ref[i]}")
        print(f"determinism {pid}: compared={compared} mismatches={mism}")
        if mism:
            rc = 2
    return rc


def sensitivity(argv):
    """Apply each catalogue mutation to a scratch copy of the repo and require that
    the quick tier of the targeted property reports a violation."""
    from .mutants import CATALOGUE
    only = [a for a in argv if not a.startswith("-")]
    with_tests = "--with-tests" in argv
    budget = "12"
    for a in argv:
        if a.startswith("--budget="):
            budget = a[9:]
    rows = []
    rc = 0
    for m in CATALOGUE:
        if only and m["id"] not in only and m["prop"] not in only:
            continue
        tmp = tempfile.mkdtemp(prefix="akmut-")
        try:
            shutil.copytree(os.path.join(core.AK_REPO, "ak"), os.path.join(tmp, "ak"))
            path = os.path.join(tmp, m["file"])
            src = open(path, encoding="utf-8").read()
            edits = m.get("edits") or [(m["old"], m["new"])]
            if any(src.count(o) != 1 for o, _ in edits):
                rows.append((m["id"], m["prop"], "STALE (pattern not found exactly once)"))
                rc = 2
                continue
            for o, nw in edits:
                src = src.replace(o, nw)
            open(path, "w", encoding="utf-8").write(src)
            tests_note = ""
            if with_tests:
                shutil.copytree(os.path.join(core.AK_REPO, "tests"), os.path.join(tmp, "tests"))
                envt = dict(os.environ)
                envt.pop("AK_REPO", None)
                rt = subprocess.run([sys.executable, "-c",
                                     "import sys, os; sys.path.insert(0, os.getcwd()); import ak; "
                                     "assert ak.__file__.startswith(os.getcwd()), ak.__file__; import pytest; "
                                     "sys.exit(pytest.main(['-q', '-p', 'no:cacheprovider', '-x', 'tests']))"],
                                    cwd=tmp, capture_output=True, text=True, env=envt, timeout=900)
                if m.get("suite_catches"):
                    tests_note = "tests:fail(as declared) " if rt.returncode != 0 else "tests:PASS(declaration stale) "
                else:
                    tests_note = "tests:pass " if rt.returncode == 0 else "tests:FAIL(not a relevant mutant) "
            env = dict(os.environ)
            env["AK_REPO"] = tmp
            r = subprocess.run([os.path.join(core.VERIF_DIR, "vcheck"), m["prop"], "--budget-s", budget],
                               capture_output=True, text=True, env=env, timeout=600)
            caught = r.returncode == 1 and "VIOLATION property=" + m["prop"] in r.stdout
            what = ""
            for ln in r.stdout.splitlines():
                if ln.strip().startswith("violated:"):
                    what = ln.strip()[:160]
                    break
            if m.get("expect_miss"):
                rows.append((m["id"], m["prop"], tests_note + ("control: silent as expected" if r.returncode == 0
                                                              else f"control: UNEXPECTED ALARM rc={r.returncode} {what}")))
                if r.returncode != 0:
                    rc = 1
                continue
            rows.append((m["id"], m["prop"], tests_note + (("caught " + what) if caught else f"MISSED rc={r.returncode} {r.stdout[-300:]}")))
            if not caught:
                rc = 1
        finally:
            shutil.rmtree(tmp, ignore_errors=True)
    for row in rows:
        print(" | ".join(row))
    return rc


if __name__ == "__main__":
    if len(sys.argv) >= 3 and sys.argv[1] == "_smoke":
        sys.exit(_smoke(sys.argv[2]))
