"""Seeded generation of colour descriptions and configuration dictionaries
(shared by the C10 and C14 worlds).  Produces only text that is valid under
the documented grammar, plus - separately - known-invalid samples."""

NAMES = ["BLACK", "RED", "GREEN", "YELLOW", "BLUE", "MAGENTA", "CYAN", "WHITE"]
MODS = ["bold", "faint", "underline", "blink", "crossed"]
BUILTIN_IDS = ["TEXT", "NAME", "KEYWORD", "NUMBER", "OK", "WARN", "ERROR"]
COMPONENT_IDS = [
    "TABLE.BORDER", "TABLE.WARN", "TABLE.HEADER",
    "RECORD.NUMBER", "RECORD.KEYWORD", "RECORD.TITLE", "RECORD.COL_TITLE",
    "GHIST.REPO", "GHIST.BRANCH", "GHIST.HASH", "GHIST.HASH_NOT_MERGED", "GHIST.COMMIT_TIME",
    "GHIST.COMMIT_NAME", "GHIST.VERSION", "GHIST.VER_NOT_BUILT", "GHIST.VER_NOT_MERGED",
    "HDOC.ATTR", "HDOC.FUNC_NAME", "HDOC.TAG", "HDOC.WARN", "LL.NAME", "LL.CATEGORY",
]
INVALID_SAMPLES = ["RED:BLUE", "a:b:c:d", "RED:boldd", "NAME:bold:RED", "RED/GREEN/BLUE", "(1,2", "NAME:(7,0,0)",
                   "bold", "RED:bold,nope"]


def gen_color(rng, allow_dash=True, allow_empty=True):
    r = rng.random()
    if r < 0.40:
        name = rng.choice(NAMES)
        return f" {name} " if rng.random() < 0.08 else name
    if r < 0.55:
        return str(rng.randrange(256))
    if r < 0.67:
        return "(%d,%d,%d)" % (rng.randrange(6), rng.randrange(6), rng.randrange(6))
    if r < 0.77:
        return "g%d" % rng.randrange(24)
    if r < 0.88 and allow_dash:
        return "-"
    if allow_empty:
        return ""
    return rng.choice(NAMES)


def gen_mods(rng):
    n = rng.choice([0, 0, 1, 1, 2, 3])
    names = rng.sample(MODS, n)
    sep = ", " if rng.random() < 0.15 else ","
    return sep.join(("no_" + m) if rng.random() < 0.3 else m for m in names)


def gen_descr(rng, parents, dash_with_parent=True):
    """parents: ids this description may refer to (may be empty)"""
    use_parent = parents and rng.random() < 0.55
    mods = gen_mods(rng)
    if use_parent:
        parent = rng.choice(parents)
        r = rng.random()
        if r < 0.35:
            cols = None
        elif r < 0.6:
            cols = gen_color(rng, allow_dash=dash_with_parent, allow_empty=False)
        else:
            fg = gen_color(rng, allow_dash=dash_with_parent)
            bg = gen_color(rng, allow_dash=dash_with_parent)
            cols = f"{fg}/{bg}"
        s = parent
        if cols is not None:
            s += ":" + cols
        elif mods and rng.random() < 0.1:
            s += ":"            # "PARENT::modifiers" - an empty colours section inherits everything
        if mods:
            s += ":" + mods
        return s
    r = rng.random()
    if r < 0.1:
        cols = ""
    elif r < 0.55:
        cols = gen_color(rng, allow_empty=False)
    else:
        cols = f"{gen_color(rng)}/{gen_color(rng)}"
    return cols + (":" + mods if mods else "")


def nest(flat, rng, p=0.5):
    """{'A.B': x} -> randomly nested {'A': {'B': x}} (same flattened content)"""
    out = {}
    groups = {}
    for k, v in flat.items():
        if "." in k and rng.random() < p:
            head, tail = k.split(".", 1)
            groups.setdefault(head, {})[tail] = v
        else:
            out[k] = v
    for head, sub in groups.items():
        if head in out:
            # a leaf and a group with the same head cannot coexist in a dict: keep flat
            for t, v in sub.items():
                out[f"{head}.{t}"] = v
        else:
            out[head] = nest(sub, rng, p * 0.6)
    return out


def gen_init(rng, usr_ids=("USR.A", "USR.B", "USR.C"), dash_with_parent=True, max_items=8):
    """an explicit configuration: overrides of built-in / component ids and user ids whose
    parents are built-ins, user ids (possibly registered only later) or earlier items."""
    n = rng.choice([0, 1, 2, 3, 4, 6, max_items])
    pool = BUILTIN_IDS + COMPONENT_IDS + list(usr_ids)
    ids = rng.sample(pool, min(n, len(pool)))
    flat = {}
    for sid in ids:
        if sid in usr_ids:
            # user ids refer only to later user ids, in the explicit configuration as in later batches:
            # a chain that enters the user ids never leaves them, so no cycle can close through a batch
            later = list(usr_ids)[list(usr_ids).index(sid) + 1:]
            flat[sid] = gen_descr(rng, later, dash_with_parent)
            continue
        parents = [p for p in BUILTIN_IDS + list(usr_ids) + list(flat) if p != sid]
        # keep it acyclic: an id may refer only to built-ins/user ids that do not (transitively) refer back
        parents = [p for p in parents if not _reaches(flat, p, sid)]
        flat[sid] = gen_descr(rng, parents, dash_with_parent)
    return flat


def _reaches(flat, start, target, depth=0):
    if start == target:
        return True
    if depth > 30 or start not in flat:
        return False
    first = flat[start].split(":")[0]
    if first in flat or first == target:
        return _reaches(flat, first, target, depth + 1)
    return False
