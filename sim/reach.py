"""Optional measurement of reach (development aid, off unless VERIF_REACH_DIR is set):
which lines inside functions of the repository's modules did the simulated runs execute.

The child of every run registers a sys.monitoring LINE callback (its own tool id; the schedule is not perturbed: the
callback draws nothing from the PRNG and threadsim counts INSTRUCTION events of another tool id).
New hits travel back in the run's result; each worker dumps its union at exit."""

import json
import os
import sys

TOOL = 3
KNOWN = None          # set of "file:line" already reported by this worker's children
_hits = None
_prefix = None


def enabled():
    return bool(os.environ.get("VERIF_REACH_DIR"))


def worker_init(repo):
    global KNOWN, _prefix
    if enabled():
        KNOWN = set()
        _prefix = os.path.join(os.path.realpath(repo), "ak") + os.sep


def child_start():
    global _hits
    if KNOWN is None:
        return
    _hits = set()
    mon = sys.monitoring
    try:
        mon.use_tool_id(TOOL, "ak_py_reach")
    except ValueError:
        pass
    prefix = _prefix
    hits = _hits

    def on_line(code, line):
        fn = code.co_filename
        if fn.startswith(prefix):
            hits.add((fn, line))
        return mon.DISABLE

    mon.register_callback(TOOL, mon.events.LINE, on_line)
    mon.set_events(TOOL, mon.events.LINE)


def child_result(res):
    if KNOWN is None or _hits is None or not isinstance(res, dict):
        return
    sys.monitoring.set_events(TOOL, 0)
    n = len(_prefix)
    res["_reach"] = sorted({f"{fn[n:]}:{line}" for fn, line in _hits} - KNOWN)


def parent_collect(res):
    if KNOWN is None or not isinstance(res, dict):
        return
    KNOWN.update(res.pop("_reach", ()) or ())


def worker_dump(prop_id):
    if KNOWN is None:
        return
    d = os.environ["VERIF_REACH_DIR"]
    os.makedirs(d, exist_ok=True)
    with open(os.path.join(d, f"{prop_id}-{os.getpid()}.json"), "w") as f:
        json.dump(sorted(KNOWN), f)
