#!/bin/bash
# usage: tools/eval_patch.sh <dir with patch.diff + demo.py> <PROP> [budget-s]
# like eval_seeded.sh, but on a scratch copy of the CURRENT /repo with the patch applied (for worktrees that were
# made before a later fix in /repo)
src="$1"; prop="$2"; budget="${3:-20}"
tmp=$(mktemp -d /tmp/akeval-XXXXXX); cp -r /repo/ak "$tmp/ak"; cp -r /repo/tests "$tmp/tests"; mkdir "$tmp/seeded_out"; cp "$src"/*.py "$tmp/seeded_out/" 2>/dev/null
echo "== $src ($prop)"
( cd "$tmp" && timeout 300 /venv/bin/python seeded_out/demo.py >/dev/null 2>&1 ); echo "demo on current /repo rc=$?"
( cd "$tmp" && patch -p1 -s < "$src/patch.diff" ) || { echo PATCH-FAILED; rm -rf "$tmp"; exit 2; }
( cd "$tmp" && /venv/bin/python -c "import sys,os; sys.path.insert(0, os.getcwd()); import ak; assert ak.__file__.startswith(os.getcwd()); import pytest; sys.exit(pytest.main(['-q','-p','no:cacheprovider','tests']))" 2>&1 | tail -1 )
( cd "$tmp" && timeout 300 /venv/bin/python seeded_out/demo.py >/dev/null 2>&1 ); echo "demo with change rc=$?"
cd /verif && AK_REPO="$tmp" timeout 900 ./vcheck "$prop" --budget-s "$budget" 2>&1 | grep -E "violated:|VIOLATION|ERROR|runs=" | cut -c1-300 | head -6
rm -rf "$tmp"
