#!/bin/bash
V="$(cd "$(dirname "$(readlink -f "$0")")/.." && pwd)"
# usage: tools/check_refactor.sh <patch.diff> <budget-s> <PROP> [<PROP>...]
# applies a behaviour-preserving patch to a scratch copy of /repo and expects every named check to stay silent
patch="$1"; budget="$2"; shift 2
tmp=$(mktemp -d /tmp/akref-XXXXXX)
cp -r /repo/ak "$tmp/ak"
( cd "$tmp" && patch -p1 -s < "$patch" ) || { echo "PATCH-FAILED $patch"; rm -rf "$tmp"; exit 2; }
rc=0
for p in "$@"; do
  out=$(cd "$V" && AK_REPO="$tmp" timeout 900 ./vcheck "$p" --budget-s "$budget" 2>&1); r=$?
  if [ $r -eq 0 ]; then echo "  $p silent ($(echo "$out" | grep -o 'runs=[0-9]*' | tail -1))"; else echo "  $p ALARM rc=$r"; echo "$out" | grep -E "violated:|ERROR" | cut -c1-400 | head -5; rc=1; fi
done
rm -rf "$tmp"
exit $rc
