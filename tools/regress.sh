#!/bin/bash
# full regression of the machinery itself (long: ~25 min on 16 cores):
#   1. every catalogue mutation is reported            (selftest-sensitivity)
#   2. every seeded change of seeded/ is reported      (scratch copies, /repo untouched)
#   3. every behaviour-preserving refactoring is silent
# NOTE: steps 2 and 3 copy /repo/ak: do not run tools/run_seeded.sh (which patches /repo itself for the time of its
#       check) while a regression is in progress - a copy taken in that window carries the seeded change.
# usage: tools/regress.sh [budget-s]
b="${1:-12}"
cd "$(dirname "$(readlink -f "$0")")/.." || exit 2
V="$(pwd)"
echo "== catalogue"; ./vcheck selftest-sensitivity --budget=$b 2>&1 | cut -c1-160 | awk '{print} /MISSED|STALE|UNEXPECTED/ {bad=1} END {exit bad}'; r1=$?
echo "== seeded"
r2=0
for d in seeded/*/; do
  id=$(basename "$d"); prop=$(/venv/bin/python -c "import json; print(json.load(open('$d/meta.json'))['property'])")
  tmp=$(mktemp -d /tmp/akseed-XXXXXX); cp -r /repo/ak "$tmp/ak"
  if ( cd "$tmp" && patch -p1 -s < "$V/$d/patch.diff" ); then
    out=$(AK_REPO="$tmp" timeout 900 ./vcheck "$prop" --budget-s $((b*2)) 2>&1); r=$?
    if [ $r -eq 1 ] && echo "$out" | grep -q "VIOLATION property=$prop"; then echo "  $id $prop caught"; else echo "  $id $prop MISSED rc=$r"; r2=1; fi
  else echo "  $id PATCH-FAILED"; r2=1; fi
  rm -rf "$tmp"
done
echo "== refactorings"; tools/run_refactors.sh $b > /tmp/refactors.$$.log 2>&1; r3=$?; grep -cE "silent" /tmp/refactors.$$.log; grep -E "ALARM|PATCH-FAILED" /tmp/refactors.$$.log; rm -f /tmp/refactors.$$.log
echo "RESULT catalogue=$r1 seeded=$r2 refactorings=$r3"
[ $r1 -eq 0 ] && [ $r2 -eq 0 ] && [ $r3 -eq 0 ]
