#!/venv/bin/python
"""Regenerates /verif/MANIFEST.json (kept valid at all times; only implemented checks are claimed)."""
import json
import os
import subprocess

HERE = os.path.dirname(os.path.dirname(os.path.abspath(__file__)))

NA = {
    "C01": "parse() is a pure function of (grammar, text): stack, cursor and token list are locals of one call and constructor products are never mutated afterwards; there is no schedule, clock, I/O or cross-call state for a simulator to own, only the input varies (DESIGN.md s5).",
    "C02": "FIRST/FOLLOW/table construction and lookup are pure; deciding it needs generated grammars against an independent LL(1) computation, i.e. input generation, not simulation.",
    "C03": "the recursion check and termination are functions of grammar and input alone; a step budget with no scheduler or fault behind it is not a simulated liveness property.",
    "C04": "token and node positions are a pure function of text and tokenizer configuration; the carried previous-end position lives inside one tokenize() call.",
    "C05": "cleanup is a pure tree -> value conversion.",
    "C06": "the report is a single-threaded pure function of the commit graph handed in; no clock is read (the windows compare commit timestamps with each other) and all caches live inside one make_reports_data call; histories are input data here.",
    "C07": "as C06; the order in which repositories are supplied is an input permutation, cycle rejection a pure graph check.",
    "C09": "colour specification -> escape string and a regular expression: pure string functions.",
    "C11": "value -> text, pure.",
    "C12": "(records, format) -> lines, pure; the stateful life of a table is covered by C13 and C10.",
    "C15": "SQL text and parameter list are a pure function of the filter tree; the only I/O is one execute on a caller-supplied connection whose faults the statement does not quantify over.",
    "C18": "sheet -> objects through a reader created per call; pure.",
    "C19": "the parser graph is built once from the declaration list; (declarations, options, argv) -> accept/reject is pure.",
    "C20": "integer <-> string bijection; pure.",
}

CHECKS = {
    "C16": dict(
        engine="threadsim",
        technique="deterministic simulation: seeded bytecode-granularity thread scheduler (sys.monitoring INSTRUCTION pre-emption points, baton-passed real threads, simulated lock whose timed waits may expire) + fake transport with fault injection; history oracle",
        design_ref="DESIGN.md 3.A, 4.5",
        text="Seeded search over thread interleavings at bytecode granularity (a superset of what CPython can do) of concurrent requests over shared connections, with transport latency/faults; the recorded request history is checked for distinct ids, gap-free sequence numbers per underlying connection and untouched caller ids. Sampling, not proof: a clean batch is evidence over the schedules explored.",
        note="Trusted: the harness's scheduler/lock shim and the id-format reading of the oracle (sequence number = last dash-separated field). stdlib calls made by the code (json, urllib.parse, Request) are atomic steps. Only ak.conn_http, ak.mcaller_http, ak.mcaller are instrumented.",
    ),
    "C17": dict(
        engine="threadsim",
        technique="deterministic simulation: seeded multi-client operation histories over a shared DAG of layered connections (sequential and thread-interleaved), fake transport with fault injection, structural reference model of adapter chains",
        design_ref="DESIGN.md 3.A, 4.6",
        text="Seeded histories of derivations, clones, add_adapter and requests (all verbs, params/data/header shapes) through shared connection DAGs, under transport faults and, in a third of runs, bytecode-level thread interleaving; every request seen by the transport and every returned value is compared with a structural reference model, caller objects are compared with deep copies.",
        note="Trusted: the reference model (chain = own adapters then parent's; url/body/header rules from the docstrings); urllib Request header capitalisation. The transport is a stub; TLS context creation is stubbed.",
    ),
    "C08": dict(
        engine="textheap",
        technique="deterministic simulation (border case): seeded holders interleaving public operations on a shared heap of aliased CHText handles, with conversion faults injected mid-operation; per-character reference model checked on every handle after every step",
        design_ref="DESIGN.md 3.C, 4.1",
        text="Seeded operation histories by several holders over shared handles; after every operation every handle (not only the touched one) is compared with an immutable per-character (char, colour) model via an independent SGR parser; equality laws checked pairwise.",
        note="Trusted: the harness SGR parser and model. Weakest fit of the family (no I/O, no clock): what is simulated is interference through aliasing; stated honestly in DESIGN.md 4.1.",
    ),
    "C10": dict(
        engine="renderworld",
        technique="deterministic simulation: seeded histories of cooperative rendering tasks over shared colour configurations/caches with simulated id() re-use and scheduled GC; oracle = pristine-process reference rendering + escape stripping",
        design_ref="DESIGN.md 3.B, 4.2",
        text="Seeded histories (create/drop/globalise configurations, register syntax, render, step/drain/abandon line tasks, GC, adversarial id re-use) over all printable object kinds; every completed rendering is compared byte for byte with a rendering of equal objects in a pristine forked process, with its own no_color rendering after stripping escapes, and line-wise vs whole.",
        note="Trusted: harness escape scanner; pristine reference runs the same code (a defect identical with and without history is invisible to the no-memory oracle). id() is simulated only as seen by ak.ppobj.",
    ),
    "C13": dict(
        engine="renderworld",
        technique="deterministic simulation: seeded life histories of tables (render, line-task stepping, fmt assignment, column removal) with a round-trip probe fired at scheduler-chosen moments, including while a rendering is in flight",
        design_ref="DESIGN.md 3.B, 4.3",
        text="At seeded moments of a table's life (fresh, being printed, printed, re-formatted, after removals) str(table.fmt) is fed to the setter and to the constructor and renderings are compared; empty/separator-only formats must change nothing, also for renderings in progress.",
        note="Trusted: table specs use explicit fields / namedtuples (value paths are not serialised by design); records are never mutated.",
    ),
    "C14": dict(
        engine="renderworld",
        technique="deterministic simulation: seeded delivery schedules (permutation, batching, poisoned batches) of syntax descriptions from several parties into shared configurations; independent reference resolver checked after every delivery",
        design_ref="DESIGN.md 3.B, 4.4",
        text="One acyclic description set per run is delivered under a seeded schedule (components' first use in any order, user batches split arbitrarily, child before parent, interleaved with reads, global replacement and synced palettes); after every delivery every formatter is decoded and compared with an independent inheritance resolver.",
        note="Trusted: the 80-line reference resolver and SGR decoder. Schedules never contain two parties describing one id differently except explicit-config-vs-component (explicit must win).",
    ),
}


def main():
    impl = [p for p in sorted(CHECKS) if os.path.exists(os.path.join(HERE, "sim", "props", p.lower() + ".py"))]
    kf = os.path.join(HERE, "known_findings.txt")
    fix_commits = []
    if os.path.exists(kf):
        for ln in open(kf):
            if ln.startswith("fixed:"):
                parts = ln.split()
                if len(parts) >= 3:
                    fix_commits.append(parts[2])
    na = dict(NA)
    for p in CHECKS:
        if p not in impl:
            na[p] = "check not built yet in this tree (planned: simulation, see DESIGN.md s4); not claimed until its check runs clean"
    m = {
        "version": 1,
        "setup_cmd": "./vcheck setup",
        "hooks": {
            "guard": "AK_PY_VERIF",
            "enable": "no guarded hook exists in /repo: every seam is reached by replacing module/instance attributes (ak.conn_http.threading/random, urllib OpenerDirector.open, ak.ppobj.id) or by sys.monitoring from outside; the variable is reserved and unused",
            "baseline_off_cmd": "cd /repo && /venv/bin/python -m pytest -ra -q -p no:cacheprovider --timeout=900 --continue-on-collection-errors",
            "source_commits": [],
            "add_only": True,
        },
        "engines": [
            {"name": "threadsim", "path": "sim/threadsim.py", "serves_properties": [p for p in ("C16", "C17") if p in impl],
             "kind_free_text": "baton-passing real threads, pre-emption before every bytecode instruction via sys.monitoring, simulated locks, fake HTTP transport with latency and faults, record/replay of pre-emption lists"},
            {"name": "renderworld", "path": "sim/renderworld.py", "serves_properties": [p for p in ("C10", "C13", "C14") if p in impl],
             "kind_free_text": "single-threaded cooperative task world over shared colour configuration state: line-iterator tasks, simulated id allocator, scheduled GC, pristine-process reference renderer"},
            {"name": "textheap", "path": "sim/props/c08.py", "serves_properties": [p for p in ("C08",) if p in impl],
             "kind_free_text": "holders interleaving operations over aliased colored-text handles with injected conversion faults"},
        ],
        "checks": [
            {
                "property_id": p,
                "quick_cmd": f"./vcheck {p} --tier quick",
                "thorough_cmd": f"./vcheck {p} --tier thorough",
                "evidence_file": f"/verif/evidence/{p}.json",
                "replay_cmd_template": f"./vcheck {p} --replay {{path}}",
                "engine": CHECKS[p]["engine"],
                "level_claimed": {"category": "exploration", "text": CHECKS[p]["text"], "design_ref": CHECKS[p]["design_ref"]},
                "level_note": CHECKS[p]["note"],
                "technique": CHECKS[p]["technique"],
            } for p in impl
        ],
        "notes": "Deterministic simulation with fault injection (seeded schedules/histories/faults, one seed = one replayable run, ddmin-minimised replay files). 14 properties are pure functions of their input and are listed not_applicable rather than switching technique; see DESIGN.md s1 and s5. No hook commit exists in /repo (hooks.source_commits is empty); the unguarded repairs of genuine defects found by the checks are the 'fix:' commits " + ", ".join(fix_commits) + " (known_findings.txt, DESIGN.md s11.3).",
        "not_applicable": [{"property_id": k, "reason": na[k]} for k in sorted(na)],
    }
    with open(os.path.join(HERE, "MANIFEST.json"), "w") as f:
        json.dump(m, f, indent=1)
        f.write("\n")
    print("MANIFEST.json: checks", impl)


if __name__ == "__main__":
    main()
