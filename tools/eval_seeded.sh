#!/bin/bash
# usage: tools/eval_seeded.sh <worktree> <PROP> [budget-s]
# confirms a sub-agent's seeded change (suite passes, demo fails with / passes without) and runs the check against it
wt="$1"; prop="$2"; budget="${3:-20}"
cd "$wt" || exit 2
echo "== $wt ($prop)"
git diff --stat -- ak | tail -1
/venv/bin/python -c "import sys,os; sys.path.insert(0, os.getcwd()); import ak; assert ak.__file__.startswith(os.getcwd()); import pytest; sys.exit(pytest.main(['-q','-p','no:cacheprovider','tests']))" 2>&1 | tail -1
timeout 600 /venv/bin/python seeded_out/demo.py >/dev/null 2>&1; echo "demo with change rc=$?"
# (no git stash: the stash list is shared by all worktrees of a repository)
git diff -- ak > /tmp/eval_seeded_$$.diff && git apply -R /tmp/eval_seeded_$$.diff && { timeout 600 /venv/bin/python seeded_out/demo.py >/dev/null 2>&1; echo "demo on original rc=$?"; git apply /tmp/eval_seeded_$$.diff; }; rm -f /tmp/eval_seeded_$$.diff
cd /verif && AK_REPO="$wt" timeout 900 ./vcheck "$prop" --budget-s "$budget" 2>&1 | grep -E "violated:|VIOLATION|ERROR|runs=" | cut -c1-260 | head -6
