#!/bin/bash
# usage: tools/run_seeded.sh <seeded-id> [budget-s]
# applies /verif/seeded/<id>/patch.diff to /repo, runs the quick check of the property it targets,
# and undoes the change straight afterwards.  Prints CAUGHT / MISSED.
set -u
id="$1"; budget="${2:-20}"
d=/verif/seeded/$id
prop=$(/venv/bin/python -c "import json,sys; print(json.load(open('$d/meta.json'))['property'])")
if [ -n "$(git -C /repo status --porcelain --untracked-files=no)" ]; then echo "ERROR: /repo has uncommitted changes"; exit 2; fi
git -C /repo apply "$d/patch.diff" || { echo "ERROR: patch does not apply"; exit 2; }
trap 'git -C /repo checkout -- . ' EXIT
out=$(cd /verif && VERIF_SCRATCH_EVIDENCE=1 timeout 600 ./vcheck "$prop" --budget-s "$budget" 2>&1); rc=$?
echo "$out" | grep -E "violated:|VIOLATION|ERROR|KNOWN" | head -8
if [ $rc -eq 1 ] && echo "$out" | grep -q "VIOLATION property=$prop"; then echo "RESULT $id $prop CAUGHT"; else echo "RESULT $id $prop MISSED rc=$rc"; fi
