import json, sys
props = {json.loads(l)['id']: json.loads(l) for l in open('/verif/properties.jsonl')}
AREAS = {
 "http": (["C16", "C17"], "ak/conn_http.py, ak/mcaller_http.py, ak/mcaller.py"),
 "color": (["C08", "C14"], "ak/color.py"),
 "ppobj": (["C10", "C13"], "ak/ppobj.py (and, if you like, ak/hdoc.py / ak/ghist.py rendering code)"),
}
FOCUS = {
 "http": "MCallerHttp.__init__ / clone / get_conn and the frame walk in mcaller.get_mcaller_meta (classes that inherit wrappers from a mixin, several caller classes side by side), _HttpConnBase.__init__ with adapters given as another connection's public .adapters list, add_adapter(), RequestArguments (headers / params / data objects of the caller, re-used and updated in place between requests), adapters that change req_args.address, the request-id generator under threads",
 "color": "ColorsConfig.add_new_items / register_color_conf_component / _flatten_dict (the caller's dicts, ids given as members of a (str, Enum) class, deep copies of a configuration), get_palette() and palettes that outlive the caller's reference to their configuration, GlobalPalette, synced palettes across changes of the global configuration, Palette.make_report; in CHText: __eq__ between objects of different subclasses, __iadd__ with operands of every kind (texts built by CHText.make, CHTextResult objects, unpickled texts), make() / _merge_chunks, __format__ including the zero flag, fixed_len, resize_chunks_list",
 "ppobj": "PPEnumFieldType (its caches of cell texts and lengths, subclasses that override the documented hooks and call super()), FieldType.fit_to_width, _DefaultTitleFieldType / TitlePalette, detect_actual_columns_widths, PPTableFormat.set_limits / remove_columns / clone, _PPTableImpl.set_fmt and gen_ch_lines (each yielded line a new object), PPRecordFmt / PPRecordChData, CHTextResult, PrettyPrinter (one value printed by the module's shared printer while another reader of it is suspended)",
}
area, wt = sys.argv[1], sys.argv[2]
ids, files = AREAS[area]
ptxt = "\n".join(f'- {i} - {props[i]["title"]}. {props[i]["statement"]}' for i in ids)
print(f'''You are helping test a verification tool. It must stay SILENT on code changes that preserve behaviour. Your job: produce FIVE independent, realistic, behaviour-preserving refactorings of a Python library, each as aggressive as you can make it while keeping every documented/observable behaviour. Work ONLY inside the git worktree {wt} (a checkout of akorshkov/ak_py). Do not read or touch /repo, /verif or any other directory. Use /venv/bin/python (3.12); run the test-suite with `cd {wt} && /venv/bin/python -c "import sys,os; sys.path.insert(0, os.getcwd()); import pytest; sys.exit(pytest.main(['-q','-p','no:cacheprovider','tests']))"`.

Area: {files}.

The semantic properties that users rely on in this area (they must keep holding, for every input and history - including objects of user-defined subclasses, user-defined adapters/palettes/field types, callers' own mapping types, long histories, concurrent use where the property mentions threads):
{ptxt}

This time concentrate on these regions (earlier rounds covered the rest): {FOCUS[area]}.

What to produce: five refactorings a maintainer could plausibly merge: restructure internals (split/merge helpers, replace loops by comprehensions or generators, change private data structures and private attribute names, introduce or remove private caches that are provably transparent, change the order of independent steps, replace isinstance chains by dispatch tables, dataclasses/slots, early returns, itertools, etc.). Prefer refactorings that touch the code paths the properties above depend on, and that LOOK risky (touch caching, copying, locking, ordering, width negotiation, equality) but are in fact correct. Each refactoring must keep: all public names and signatures, return values and their types, exceptions and their types, the text of everything rendered (byte for byte, colours included), the order and content of HTTP requests, the treatment of caller-owned objects (never mutated, never kept by reference where they were copied before), and behaviour for subclasses that override documented hooks. Do NOT fix bugs, do not change behaviour "for the better", do not change public or documented behaviour in any way; only private names / internal structure may change.

Each refactoring is made on a clean checkout of the worktree's HEAD (they are independent alternatives, not a sequence): after finishing one, save `git diff` as {wt}/refactor_out/refactor_<n>.diff (n=1..5), then `git checkout -- .` before starting the next. For each: the test-suite must pass with it applied. Be careful and self-critical: think about aliasing, generators that are consumed lazily, evaluation order, exceptions raised half-way, re-entrancy, subclass overrides, thread safety. If in doubt, choose a different refactoring.

Also write {wt}/refactor_out/notes.json: a list of {{"file": "refactor_<n>.diff", "summary": "...", "why_behaviour_preserving": "..."}}.
NEVER use `git stash` (the stash is shared with other worktrees of the same repository where other helpers work concurrently); use `git diff > file` and `git checkout -- .`. Keep your messages short. Report briefly what the five refactorings are.''')
