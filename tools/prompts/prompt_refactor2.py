import json, sys
props = {json.loads(l)['id']: json.loads(l) for l in open('/verif/properties.jsonl')}
AREAS = {
 "http": (["C16", "C17"], "ak/conn_http.py, ak/mcaller_http.py, ak/mcaller.py"),
 "color": (["C08", "C14"], "ak/color.py"),
 "ppobj": (["C10", "C13"], "ak/ppobj.py (and, if you like, ak/hdoc.py / ak/ghist.py rendering code)"),
}
area, wt = sys.argv[1], sys.argv[2]
ids, files = AREAS[area]
ptxt = "\n".join(f'- {i} - {props[i]["title"]}. {props[i]["statement"]}' for i in ids)
print(f'''You are helping test a verification tool. It must stay SILENT on code changes that preserve behaviour. Your job: produce FIVE independent, realistic, behaviour-preserving refactorings of a Python library, each as aggressive as you can make it while keeping every documented/observable behaviour. Work ONLY inside the git worktree {wt} (a checkout of akorshkov/ak_py). Do not read or touch /repo, /verif or any other directory. Use /venv/bin/python (3.12); run the test-suite with `cd {wt} && /venv/bin/python -c "import sys,os; sys.path.insert(0, os.getcwd()); import pytest; sys.exit(pytest.main(['-q','-p','no:cacheprovider','tests']))"`.

Area: {files}.

The semantic properties that users rely on in this area (they must keep holding, for every input and history - including objects of user-defined subclasses, user-defined adapters/palettes/field types, callers' own mapping types, long histories, concurrent use where the property mentions threads):
{ptxt}

What to produce: five refactorings a maintainer could plausibly merge: restructure internals (split/merge helpers, replace loops by comprehensions or generators, change private data structures and private attribute names, introduce or remove private caches that are provably transparent, change the order of independent steps, replace isinstance chains by dispatch tables, dataclasses/slots, early returns, itertools, etc.). Prefer refactorings that touch the code paths the properties above depend on, and that LOOK risky (touch caching, copying, locking, ordering, width negotiation, equality) but are in fact correct. Each refactoring must keep: all public names and signatures, return values and their types, exceptions and their types, the text of everything rendered (byte for byte, colours included), the order and content of HTTP requests, the treatment of caller-owned objects (never mutated, never kept by reference where they were copied before), and behaviour for subclasses that override documented hooks. Do NOT fix bugs, do not change behaviour "for the better", do not change public or documented behaviour in any way; only private names / internal structure may change.

Each refactoring is made on a clean checkout of the worktree's HEAD (they are independent alternatives, not a sequence): after finishing one, save `git diff` as {wt}/refactor_out/refactor_<n>.diff (n=1..5), then `git checkout -- .` before starting the next. For each: the test-suite must pass with it applied. Be careful and self-critical: think about aliasing, generators that are consumed lazily, evaluation order, exceptions raised half-way, re-entrancy, subclass overrides, thread safety. If in doubt, choose a different refactoring.

Also write {wt}/refactor_out/notes.json: a list of {{"file": "refactor_<n>.diff", "summary": "...", "why_behaviour_preserving": "..."}}.
Report briefly what the five refactorings are.''')
