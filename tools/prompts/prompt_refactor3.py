import json, sys
props = {json.loads(l)['id']: json.loads(l) for l in open('/verif/properties.jsonl')}
AREAS = {
 "http": (["C16", "C17"], "ak/conn_http.py, ak/mcaller_http.py, ak/mcaller.py"),
 "color": (["C08", "C14"], "ak/color.py"),
 "ppobj": (["C10", "C13"], "ak/ppobj.py (and, if you like, ak/hdoc.py / ak/ghist.py rendering code)"),
}
FOCUS = {
 "http": "add_adapter() and the construction of adapter chains in _HttpConnBase.__init__ (own adapters + inherited ones), the headers / params / data handling in RequestArguments and do_request, the auth adapters (how credentials are encoded), MCallerHttp.clone() and get_conn() caching, the request-id generator",
 "color": "the Palette machinery: _PaletteMeta (creation, caching, synced palettes), Palette.__init__ / _local_colors / get_color / make_report / _sync_with_config, register_in_colors_conf with PARENT_PALETTES and with palette classes derived from other palette classes, CompoundPalette.get_sub_palette; ColorsConfig.add_new_items (the resolution walk over long reference chains) and make_report; CHText.__format__, __eq__, fixed_len, resize_chunks_list",
 "ppobj": "ReprStructure.make (every route to a record structure: fields= names, RecordField objects, namedtuple _fields, enhanced fmt 'name<-path', plain tuples -> col_N, no records -> placeholder column), RecordField value paths, _PPTableImpl.gen_ch_lines (limits, skipped-records lines, break-by), PPTableFormat / ReprColumn clone and to_fmt_str, CHTextResult, and in ak/hdoc.py the generation of help items (explicit_only, hidden, methods available under a second name)",
}
area, wt = sys.argv[1], sys.argv[2]
ids, files = AREAS[area]
ptxt = "\n".join(f'- {i} - {props[i]["title"]}. {props[i]["statement"]}' for i in ids)
print(f'''You are helping test a verification tool. It must stay SILENT on code changes that preserve behaviour. Your job: produce FIVE independent, realistic, behaviour-preserving refactorings of a Python library, each as aggressive as you can make it while keeping every documented/observable behaviour. Work ONLY inside the git worktree {wt} (a checkout of akorshkov/ak_py). Do not read or touch /repo, /verif or any other directory. Use /venv/bin/python (3.12); run the test-suite with `cd {wt} && /venv/bin/python -c "import sys,os; sys.path.insert(0, os.getcwd()); import pytest; sys.exit(pytest.main(['-q','-p','no:cacheprovider','tests']))"`.

Area: {files}.

The semantic properties that users rely on in this area (they must keep holding, for every input and history - including objects of user-defined subclasses, user-defined adapters/palettes/field types, callers' own mapping types, long histories, concurrent use where the property mentions threads):
{ptxt}

This time concentrate on these regions (earlier rounds covered the rest): {FOCUS[area]}.

What to produce: five refactorings a maintainer could plausibly merge: restructure internals (split/merge helpers, replace loops by comprehensions or generators, change private data structures and private attribute names, introduce or remove private caches that are provably transparent, change the order of independent steps, replace isinstance chains by dispatch tables, dataclasses/slots, early returns, itertools, etc.). Prefer refactorings that touch the code paths the properties above depend on, and that LOOK risky (touch caching, copying, locking, ordering, width negotiation, equality) but are in fact correct. Each refactoring must keep: all public names and signatures, return values and their types, exceptions and their types, the text of everything rendered (byte for byte, colours included), the order and content of HTTP requests, the treatment of caller-owned objects (never mutated, never kept by reference where they were copied before), and behaviour for subclasses that override documented hooks. Do NOT fix bugs, do not change behaviour "for the better", do not change public or documented behaviour in any way; only private names / internal structure may change.

Each refactoring is made on a clean checkout of the worktree's HEAD (they are independent alternatives, not a sequence): after finishing one, save `git diff` as {wt}/refactor_out/refactor_<n>.diff (n=1..5), then `git checkout -- .` before starting the next. For each: the test-suite must pass with it applied. Be careful and self-critical: think about aliasing, generators that are consumed lazily, evaluation order, exceptions raised half-way, re-entrancy, subclass overrides, thread safety. If in doubt, choose a different refactoring.

Also write {wt}/refactor_out/notes.json: a list of {{"file": "refactor_<n>.diff", "summary": "...", "why_behaviour_preserving": "..."}}.
NEVER use `git stash` (the stash is shared with other worktrees of the same repository where other helpers work concurrently); use `git diff > file` and `git checkout -- .`. Keep your messages short. Report briefly what the five refactorings are.''')
