#!/bin/bash
# usage: tools/verify_demos.sh [id-prefix]
# every seeded change: its demonstration fails with the patch applied and passes without it (scratch copies)
cd "$(dirname "$(readlink -f "$0")")/.." || exit 2
V="$(pwd)"; bad=0; n=0
for d in seeded/${1:-}*/; do
  id=$(basename "$d"); [ -f "$d/demo.py" ] || { echo "  NO-DEMO $id"; continue; }
  tmp=$(mktemp -d /tmp/akdemo-XXXXXX); cp -r /repo/ak "$tmp/ak"; cp -r /repo/tests "$tmp/tests" 2>/dev/null; mkdir "$tmp/seeded_out"; cp "$d"/*.py "$tmp/seeded_out/" 2>/dev/null
  ( cd "$tmp" && timeout 300 /venv/bin/python seeded_out/demo.py >/dev/null 2>&1 ); r0=$?
  if ( cd "$tmp" && patch -p1 -s < "$V/$d/patch.diff" ); then
    ( cd "$tmp" && timeout 300 /venv/bin/python seeded_out/demo.py >/dev/null 2>&1 ); r1=$?
  else r1=PATCHFAIL; fi
  n=$((n+1))
  if [ "$r0" = "0" ] && [ "$r1" != "0" ] && [ "$r1" != "PATCHFAIL" ]; then :; else echo "  INCONSISTENT $id original=$r0 patched=$r1"; bad=$((bad+1)); fi
  rm -rf "$tmp"
done
echo "DEMOS checked=$n inconsistent=$bad"
[ $bad -eq 0 ]
