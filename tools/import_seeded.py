#!/venv/bin/python
"""usage: import_seeded.py <worktree>/seeded_out <seeded-id> <detected_by text> [<history text>]"""
import json, os, shutil, sys
src, sid, detected = sys.argv[1:4]
hist = sys.argv[4] if len(sys.argv) > 4 else None
d = os.path.join('/verif/seeded', sid)
os.makedirs(d, exist_ok=True)
for f in os.listdir(src):
    if f != 'meta.json' and not f.startswith('__'):
        p = os.path.join(src, f)
        if os.path.isfile(p):
            shutil.copy(p, d)
m = json.load(open(os.path.join(src, 'meta.json')))
m['id'] = sid
m['origin'] = 'independent sub-agent (given only the property text and its own scratch worktree; nothing from /verif)'
m['confirmed'] = {'tests_pass_with_change': '208 passed', 'demo_with_change': 'exit 1', 'demo_on_original': 'exit 0'}
m['ran'] = ['in the worktree: full pytest suite (208 passed); demo.py with the change (fails) and with the change stashed (passes)',
            'AK_REPO=<worktree> ./vcheck <prop> --budget-s 15',
            f'tools/run_seeded.sh {sid}  (git -C /repo apply patch.diff; quick check; git -C /repo checkout -- .)']
m['detected_by'] = detected
if hist:
    m['history'] = hist
json.dump(m, open(os.path.join(d, 'meta.json'), 'w'), indent=1)
print('imported', sid)
