#!/venv/bin/python
"""usage: tools/reach.py [budget-s] [PROP ...]
Measures which function-body lines of the anchored modules the simulated runs execute (sim/reach.py),
and lists the functions with unexecuted lines.  Development aid: points at behaviour the workloads
never exercise.  Writes nothing under evidence/ (scratch evidence) and removes its scratch directory."""
import json, os, subprocess, sys, tempfile, shutil, glob, types

V = os.path.dirname(os.path.dirname(os.path.abspath(__file__)))
FILES = {"C08": ["color.py"], "C10": ["color.py", "ppobj.py", "ghist.py", "hdoc.py"], "C13": ["ppobj.py"],
         "C14": ["color.py"], "C16": ["conn_http.py", "mcaller_http.py", "mcaller.py"],
         "C17": ["conn_http.py", "mcaller_http.py", "mcaller.py"]}


def func_lines(path):
    """{qualified function name: set(lines of its body)}"""
    src = open(path).read()
    top = compile(src, path, "exec")
    out = {}

    def walk(co, qual, is_func):
        if is_func:
            ls = {l for _, _, l in co.co_lines() if l is not None and l != co.co_firstlineno}
            if ls:
                out[f"{qual}@{co.co_firstlineno}"] = ls
        for c in co.co_consts:
            if isinstance(c, types.CodeType):
                # class bodies run at import time (in the zygote): only functions count
                is_f = not ("__qualname__" in c.co_names and "__module__" in c.co_names)
                walk(c, (qual + "." if qual else "") + c.co_name, is_f)
    walk(top, "", False)
    return out


def main():
    args = sys.argv[1:]
    budget = args.pop(0) if args and args[0].isdigit() else "20"
    props = args or sorted(FILES)
    repo = os.environ.get("AK_REPO", "/repo")
    d = tempfile.mkdtemp(prefix="akreach-")
    try:
        hit = {}
        for p in props:
            env = dict(os.environ, VERIF_REACH_DIR=d, VERIF_SCRATCH_EVIDENCE="1")
            r = subprocess.run(["./vcheck", p, "--budget-s", budget], cwd=V, env=env, capture_output=True, text=True)
            print(p, "rc", r.returncode, r.stdout.strip().splitlines()[-1][:100] if r.stdout.strip() else r.stderr[-300:])
            hs = set()
            for f in glob.glob(os.path.join(d, p + "-*.json")):
                hs.update(json.load(open(f)))
            hit[p] = hs
        allhit = set().union(*hit.values())
        for fn in sorted({f for p in props for f in FILES[p]}):
            fl = func_lines(os.path.join(repo, "ak", fn))
            tot = sum(len(v) for v in fl.values())
            got = sum(1 for q, ls in fl.items() for l in ls if f"{fn}:{l}" in allhit)
            print(f"== ak/{fn}: {got}/{tot} function-body lines executed by {','.join(p for p in props if fn in FILES[p])}")
            for q, ls in sorted(fl.items(), key=lambda kv: int(kv[0].split('@')[1])):
                miss = sorted(l for l in ls if f"{fn}:{l}" not in allhit)
                if miss:
                    tag = "NEVER" if len(miss) == len(ls) else "part "
                    print(f"   {tag} {q}: {len(miss)}/{len(ls)} lines not executed: {miss[:12]}{'...' if len(miss) > 12 else ''}")
    finally:
        shutil.rmtree(d, ignore_errors=True)


if __name__ == "__main__":
    main()
