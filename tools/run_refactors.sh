#!/bin/bash
V="$(cd "$(dirname "$(readlink -f "$0")")/.." && pwd)"
# behaviour-preserving control set: every check must stay silent on every refactoring
# usage: tools/run_refactors.sh [budget-s]
b="${1:-12}"; rc=0
for f in "$V"/refactors/http/refactor_*.diff; do echo "$f"; "$V"/tools/check_refactor.sh "$f" "$b" C16 C17 || rc=1; done
for f in "$V"/refactors/ppobj/refactor_*.diff; do echo "$f"; "$V"/tools/check_refactor.sh "$f" "$b" C10 C13 || rc=1; done
for f in "$V"/refactors/color/refactor_*.diff; do [ -e "$f" ] || continue; echo "$f"; "$V"/tools/check_refactor.sh "$f" "$b" C08 C14 C10 || rc=1; done
exit $rc
