#!/bin/bash
# usage: tools/robust_sweep.sh "<seed> <seed> ..." [budget-s]
# every seeded change must be reported under EVERY given base seed within the budget: detections that depend on
# the luck of one seed show up here (scratch copies, /repo untouched).  Prints one line per miss and a summary.
seeds="$1"; b="${2:-24}"
cd "$(dirname "$(readlink -f "$0")")/.." || exit 2
V="$(pwd)"; miss=0; n=0
for d in seeded/*/; do
  id=$(basename "$d"); prop=$(/venv/bin/python -c "import json; print(json.load(open('$d/meta.json'))['property'])")
  tmp=$(mktemp -d /tmp/akseed-XXXXXX); cp -r /repo/ak "$tmp/ak"
  if ( cd "$tmp" && patch -p1 -s < "$V/$d/patch.diff" ); then
    for s in $seeds; do
      n=$((n+1))
      out=$(AK_REPO="$tmp" VERIF_SEED=$s timeout 900 ./vcheck "$prop" --budget-s "$b" 2>&1); r=$?
      if [ $r -eq 1 ] && echo "$out" | grep -q "VIOLATION property=$prop"; then :; else echo "  MISSED $id $prop seed=$s rc=$r $(echo "$out" | grep -o 'runs=[0-9]*' | tail -1)"; miss=$((miss+1)); fi
    done
  else echo "  PATCH-FAILED $id"; miss=$((miss+1)); fi
  rm -rf "$tmp"
done
echo "SWEEP checked=$n missed=$miss"
[ $miss -eq 0 ]
